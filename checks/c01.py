"""C01 — interface files parse to a tree that mirrors the source exactly.

(a) choice determinism (Engine G): no well-formed token string is lost to longest-match / ordered-choice /
    greedy commitment: exists t. CFG_accepts(t) and not PEG_accepts(t) over the same live graph.
(b) tree faithfulness (Engine X, harness/c01_tree.py): descriptor -> text -> real parser -> projection == descriptor.
"""
import os
import time

import z3

from vlib import gram, xh
from vlib.common import Report, load_known_findings
from checks import gcommon


def part_a(rep, tier):
    quick = tier == "quick"
    N = 10 if quick else 13
    budget = 240 if quick else 1800
    G, parser = gcommon.load_grammar()
    import pyparsing as pp
    from harness.refgrammar import well_formed
    rep.functions.update(["gtwrap.interface_parser.Module.rule (live object graph, %d nodes) read as PEG and as CFG" % len(G.nodes)])
    rep.bounds["choice_determinism"] = {"max_tokens": N, "vocabulary_size": len(G.V), "layout": "single space"}
    tok, length = gram.mk_stream(N)
    t0 = time.time()
    try:
        EP = gram.Enc(G, N, tok, length, "p", mode="peg", sep_fixed=1)
        EC = gram.Enc(G, N, tok, length, "c", mode="cfg", sep_fixed=1)
        accp, accc = EP.accepts(), EC.accepts()
        saved = set(G.reserved)
        G.reserved = set()
        EC0 = gram.Enc(G, N, tok, length, "z", mode="cfg", sep_fixed=1)
        accc0 = EC0.accepts()
        G.reserved = saved
    except gram.Unsupported as ex:
        rep.harness_error("grammar uses a construct the encoder does not support: %s" % ex)
        return
    rep.extra["encoding_c01a"] = {"definitions": len(EP.defs) + len(EC.defs) + len(EC0.defs), "encode_seconds": round(time.time() - t0, 1), "N": N}
    s = gcommon.new_solver(budget)
    s.add(EP.defs); s.add(EC.defs); s.add(EC0.defs)
    s.add(gram.stream_constraints(G, N, tok, length))
    s.add(EP.default_domain()); s.add(EP.include_domain())
    # vacuity
    s.push(); s.add(accp, accc, length == N)
    r, m, dt = gcommon.check(s, rep, "witness", N)
    if r != "sat":
        rep.harness_error("vacuity witness (a stream of %d tokens accepted by both readings) is %s" % (N, r))
    else:
        rep.sample({"accepted_by_both_readings": EP.render(m)})
    rep.cond("c01.a_witness", "z3 grammar encoding (PEG+CFG)", "confirmed" if r == "sat" else "error", dt, "")
    s.pop()
    gcommon.validate_model(rep, G, EP, s, accp, n_each=8 if quick else 25)
    # encoding self-check: every PEG parse is a derivation of the unrestricted CFG reading
    s.push(); s.add(accp, gram.Not_(accc0))
    r, m, dt = gcommon.check(s, rep, "selfcheck", N)
    if r == "sat":
        rep.harness_error("self-check failed: PEG accepts %r but the unrestricted CFG reading does not" % EP.render(m))
    rep.cond("c01.a_selfcheck_peg_subset_cfg", "z3 grammar encoding (PEG+CFG)", {"unsat": "confirmed", "sat": "error"}.get(r, "inconclusive(timeout)"), dt,
             "PEG_accepts and not CFG0_accepts must be unsat")
    s.pop()
    # the query
    s.push(); s.add(accc, gram.Not_(accp))
    verdict, total = "confirmed", 0.0
    for it in range(5):
        r, m, dt = gcommon.check(s, rep, "equiv", N)
        total += dt
        if r == "unsat":
            break
        if r != "sat":
            verdict = "inconclusive(timeout)"
            break
        toks = EP.tokens(m)
        text = " ".join(toks)
        try:
            parser.Module.parseString(text)
            real = "accept"
        except pp.ParseBaseException:
            real = "reject"
        except (ValueError, AssertionError):
            real = "accept"
        wf = well_formed(toks)
        rep.extra["replayed"] = rep.extra.get("replayed", 0) + 1
        if real == "reject" and wf:
            verdict = "counterexample"
            rep.violation("well-formed input %r is rejected by the parser (lost to ordered choice / longest match / greedy commitment)" % text,
                          dict(kind="c01-lost", text=text, tokens=toks))
            break
        if real == "accept":
            rep.harness_error("encoding disagrees with the real parser: model rejects %r, real accepts" % text)
            verdict = "error"
            break
        # CFG reading over-approximates the dialect for this stream (reference recogniser says ill-formed): skip it
        rep.extra["cfg_overapprox_skipped"] = rep.extra.get("cfg_overapprox_skipped", 0) + 1
        L = m.eval(length, model_completion=True).as_long()
        s.add(z3.Or([tok[k] != m.eval(tok[k], model_completion=True) for k in range(L)] + [length != L]))
        verdict = "inconclusive(cfg-overapproximation)"
    rep.cond("c01.a_choice_determinism", "z3 grammar encoding (PEG vs CFG)", verdict, total,
             "exists t: CFG_accepts(t) and not PEG_accepts(t)?", bounds="all token strings of length<=%d" % N)
    s.pop()
    rep.paths += len(EP.defs) + len(EC.defs)


def part_c(rep, tier):
    """every well-formed file parses: exists t (<= NW tokens): the STRICT reference grammar derives t and the live
    grammar (PEG reading) rejects it?  Reference = harness/refsym.py with reserved words excluded from identifiers, i.e.
    the documented dialect; the other inclusion (live accepts => relaxed reference derives) is checked under C07."""
    import pyparsing as pp
    from harness import refsym
    quick = tier == "quick"
    NW = int(os.environ.get("VERIF_C01_NW", 0)) or (13 if quick else 16)
    G, parser = gcommon.load_grammar()
    tok, length = gram.mk_stream(NW, "w")
    t0 = time.time()
    try:
        E = gram.Enc(G, NW, tok, length, "w", mode="peg", sep_fixed=1)
        acc = E.accepts()
    except gram.Unsupported as ex:
        rep.harness_error("grammar uses a construct the encoder does not support: %s" % ex)
        return
    R = refsym.Sym(G.V, NW, tok, length, relaxed=False)
    racc = R.accepts()
    t_enc = time.time() - t0
    s = gcommon.new_solver(300 if quick else 3000)
    s.add(E.defs); s.add(gram.stream_constraints(G, NW, tok, length)); s.add(E.default_domain()); s.add(E.include_domain())
    rep.functions.add("harness/refsym.py RULES with the strict identifier rule (%d rule instances encoded)" % R.nodes)
    nval = 0
    for side, cond in (("derives", racc), ("does not derive", z3.And(z3.Not(racc), acc))):
        s.push(); s.add(cond)
        for _ in range(8 if quick else 25):
            if str(s.check()) != "sat":
                break
            m = s.model()
            toks = E.tokens(m)
            if refsym.concrete(toks, relaxed=False) != (side == "derives"):
                rep.harness_error("symbolic strict reference says %r %s, the concrete recogniser disagrees" % (" ".join(toks), side))
            nval += 1
            L = len(toks)
            s.add(z3.Or([tok[k] != m.eval(tok[k], model_completion=True) for k in range(L)] + [length != L]))
        s.pop()
    rep.extra["strict_reference_validation_cases"] = nval
    s.push(); s.add(racc, gram.Not_(acc))
    r, m, dt = gcommon.check(s, rep, "wellformed-accepted", NW)
    verdict = {"unsat": "confirmed", "sat": "counterexample"}.get(r, "inconclusive(timeout)")
    if r == "sat":
        toks, text = E.tokens(m), E.render(m)
        try:
            parser.Module.parseString(text); real = "accept"
        except pp.ParseBaseException:
            real = "reject"
        except (ValueError, AssertionError):
            real = "accept"
        rep.extra["replayed"] = rep.extra.get("replayed", 0) + 1
        if real == "reject" and refsym.concrete(toks, relaxed=False):
            rep.violation("well-formed input %r is rejected by the parser" % text, dict(kind="c01-lost", text=text, tokens=toks))
        else:
            rep.harness_error("well-formedness model %r did not reproduce (real parser: %s, strict reference derives: %s)" % (text, real, refsym.concrete(toks, relaxed=False)))
            verdict = "error"
    rep.cond("c01.c_wellformed_accepted", "z3: strict reference grammar encoding vs live grammar encoding", verdict, dt + t_enc,
             "exists a token string the documented dialect derives and the parser rejects?", bounds="all token strings of length<=%d over %d spellings" % (NW, len(G.V)))
    s.pop()
    rep.paths += len(E.defs)
    rep.bounds["wellformed_accepted"] = {"max_tokens": NW, "layout": "single space between tokens", "identifier rule": "strict (reserved words are not identifiers; `pair` is an ordinary name outside the head of a return type)"}


def run(tier):
    rep = Report("C01", tier, "model_checking")
    rep.assumptions = ["token-level model with real-leaf tables", "default values are single atom tokens",
                       "reference lexical rule of the CFG reading: identifier leaves do not match reserved spellings",
                       "second replay oracle: hand-written recogniser of the DOCS.md dialect (harness/refgrammar.py)"]
    rep.outside = ["files longer than the bounds", "identifier spellings other than the exemplars", "character-level layout (C12)"]
    part_a(rep, tier)
    part_c(rep, tier)
    if os.path.exists(os.path.join(os.path.dirname(__file__), "..", "harness", "c01_tree.py")):
        from harness import c01_tree
        open_f, _ = load_known_findings("C01")
        xh.run(rep, c01_tree.conds(tier), open_f)
    rep.extra["rule"] = "states = Boolean definitions of the grammar encodings + CrossHair paths; transitions = SMT queries + conditions"
    return rep.finish()


def replay(payload):
    import gtwrap.interface_parser as parser
    if payload.get("kind") == "c01-lost":
        try:
            parser.Module.parseString(payload["text"])
            print("accepted now")
            return 0
        except Exception as ex:
            print("real parser rejects %r: %s" % (payload["text"], type(ex).__name__))
            print("VIOLATION property=C01 replay=(replayed)")
            return 1
    from vlib.main import generic_replay
    return generic_replay(payload)
