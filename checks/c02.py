"""C02 check: CrossHair over the real template_instantiator helpers."""
from vlib.common import Report, load_known_findings
from vlib import xh

FUNCS = ["gtwrap.template_instantiator.helpers.instantiate_type", "helpers.is_scoped_template",
         "helpers.instantiate_args_list", "helpers.instantiate_return_type",
         "classes.InstantiatedClass.__init__ (+instantiate_ctors/methods/static_methods/properties/operators/parent_class)",
         "helpers.InstantiationHelper.multilevel_instantiation", "function.InstantiatedGlobalFunction.__init__",
         "interface_parser.type.Type.to_cpp", "TemplatedType.to_cpp", "Typename.to_cpp"]


def conds(tier):
    q = tier == "quick"
    M = "harness.c02"
    ex = lambda **kw: ", ".join("%s=%r" % kv for kv in kw.items())
    lp, lq = (2, 3) if q else (3, 5)
    b = "len(p)<=%d, len(q)<=%d over the 63-character identifier alphabet" % (lp, lq)
    b1 = "len(p)<=%d, len(q)<=%d over the 63-character identifier alphabet" % (lp, lq + 1)
    t = (lambda a, bb: a) if q else (lambda a, bb: bb)
    return [
        xh.Cond(M, "c02_plain", t(240, 1500), examples=[ex(p="T", q="Key", qual=0), ex(p="T", q="Key", qual=4)],
                bounds=b1 + "; 5 qualifier combinations"),
        xh.Cond(M, "c02_scoped", t(150, 1500), examples=[ex(p="T", q="Value", qual=0), ex(p="V", q="Value", qual=1), ex(p="B", q="AB", qual=2)],
                bounds=b1 + "; 3 qualifier combinations"),
        xh.Cond(M, "c02_unrelated_scope", t(120, 1200), examples=[ex(p="T", q="Traits")], bounds=b1),
        xh.Cond(M, "c02_two_params", t(120, 1200), examples=[ex(p="T", q="U")], bounds=b),
        xh.Cond(M, "c02_nested_d1", t(300, 1800), examples=[ex(p="T", q="K", shape=0), ex(p="T", q="K", shape=2), ex(p="T", q="K", shape=4)], bounds=b + "; 5 inner shapes (plain, const&, T::Value, T*, T::Rebind<T, This>)"),
        xh.Cond(M, "c02_nested_d2", t(240, 1800), examples=[ex(p="T", q="K", shape=0), ex(p="T", q="K", shape=2), ex(p="T", q="K", shape=4)],
                bounds=("len(p)<=1, len(q)<=2" if q else "len(p)<=2, len(q)<=3") + "; 5 inner shapes"),
        xh.Cond(M, "c02_nested_d3", t(150, 1500), examples=[ex(p="T", q="K", shape=1), ex(p="X", q="M", shape=2)],
                bounds=("len(p)<=1, len(q)<=2" if q else "len(p)<=2, len(q)<=3") + "; 4 inner shapes"),
        xh.Cond(M, "c02_all_trees", t(300, 1800), kind="shape-bounded", examples=[ex(kind=0, r=0, a=18, b=0), ex(kind=1, r=3, a=1, b=0), ex(kind=2, r=6, a=0, b=3), ex(kind=2, r=15, a=25, b=5), ex(kind=1, r=0, a=30, b=0), ex(kind=2, r=3, a=12, b=6), ex(kind=1, r=12, a=30, b=0)],
                bounds="every type tree over leaves {T, Key, This} x scopes {-, T::, This::, ns::, T::Traits::, This::Inner::} x {plain, const&, *} and templated roots {vec, Rebind} x scopes {std::, T::, This::} x qualifiers with 1-2 leaf arguments (%s), with and without the instantiated class handed over" % (
                    "each root with every third leaf, second argument derived" if q else "all roots x all leaves x 8 second arguments")),
        xh.Cond(M, "c02_this", t(120, 900), examples=[ex(q="Val", shape=1), ex(q="Thisx", shape=3), ex(q="w", shape=2)],
                bounds="len(q)<=6, 4 shapes"),
        xh.Cond(M, "c02_templated_instantiations", t(120, 600), kind="shape-bounded", examples=[ex(inst=0, shape=0, this=1), ex(inst=2, shape=3, this=0), ex(inst=5, shape=7, this=1)],
                bounds="6 templated instantiation types (qualifier repeated in / suffix of their arguments) x 9 uses (bare, scoped, nested) x with / without the class handed over"),
        xh.Cond(M, "c02_qualified_twin", t(150, 900), examples=[ex(p="T"), ex(p="Point"), ex(p="lst")],
                bounds="len(p)<=%d; a qualified type named like the parameter at 12 positions (top level, depth 1-2, templated, pointer, pair)" % (2 if q else 3)),
        xh.Cond(M, "c02_shadowed_parameter", t(200, 1200), examples=[ex(p="T", q="Key"), ex(p="V", q="Value")],
                bounds=b + "; method, static method and constructor templates"),
        xh.Cond(M, "c02_class_positions", t(240, 1800), examples=[ex(p="T", q="Key"), ex(p="V", q="Value")],
                bounds=b + "; 22 type positions of one class template"),
        xh.Cond(M, "c02_function_positions", t(200, 1500), examples=[ex(p="T", q="Key")],
                bounds=b + "; 5 type positions of one function template"),
    ]


def run(tier):
    rep = Report("C02", tier, "model_checking")
    rep.functions.update(FUNCS)
    rep.bounds = {"identifier_alphabet": "[A-Za-z_][A-Za-z0-9_]*", "string_lengths": "per condition (see conditions[].bounds)",
                  "instantiations": ["ns::X", "ns::Y<int>"], "nesting_depth": "<=3"}
    rep.outside = ["identifiers longer than the per-condition bounds", "more than two template parameters",
                   "nesting deeper than 3", "numeric instantiation arguments (covered concretely in C08)"]
    rep.assumptions = ["AST nodes are built with the parser's own node constructors (Type/TemplatedType/Typename) or by "
                       "parsing a fixed text and renaming identifiers in the tree; the parser itself is covered by C01",
                       "reference substitution: a Typename is a parameter use iff its first scope component (or whole "
                       "unqualified name) equals the parameter spelling; `This` likewise"]
    open_f, _ = load_known_findings("C02")
    xh.run(rep, conds(tier), open_f)
    rep.extra["rule"] = "one evaluation = one CrossHair execution path through the real instantiator with symbolic identifier strings; distinct = distinct path conditions"
    return rep.finish()
