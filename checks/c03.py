"""C03 check: binding names / ignore matching (spelling-symbolic) + census (shape-bounded)."""
import os
from vlib.common import Report, load_known_findings
from vlib import xh


def conds(tier):
    q = tier == "quick"
    M = "harness.c03"
    t = (lambda a, b: a) if q else (lambda a, b: b)
    ln = 6 if q else 9
    b = "all identifiers of length <= %d over [A-Za-z_][A-Za-z0-9_]*" % ln
    cs = [
        xh.Cond(M, "c03_method_name", t(200, 1500), examples=["name='foo'", "name='lambda'", "name='await'", "name='None'"], bounds=b),
        xh.Cond(M, "c03_static_name", t(200, 1500), examples=["name='Create'", "name='async'", "name='from'"], bounds=b),
        xh.Cond(M, "c03_function_name", t(200, 1500), examples=["name='load2D'", "name='print'", "name='global'"], bounds=b),
        xh.Cond(M, "c03_ignore_exact", t(200, 1500), examples=["entry='ns::A'", "entry='A'", "entry='ns::AB'", "entry='s::A'", "entry=''"],
                bounds="all ignore entries of length <= 7 over the alphabet {n,s,A,:,B,_,space}"),
        xh.Cond(M, "c03_class_name", t(200, 1500), examples=["name='Pose3'"], bounds="all class names of length <= 6"),
    ]
    if os.path.exists(os.path.join(os.path.dirname(__file__), "..", "harness", "c03_census.py")):
        from harness import c03_census
        cs += c03_census.conds(tier)
    return cs


def run(tier):
    rep = Report("C03", tier, "model_checking")
    rep.functions.update(["PybindWrapper._wrap_method", "PybindWrapper.wrap_methods", "PybindWrapper.wrap_functions",
                          "PybindWrapper.wrap_instantiated_class", "PybindWrapper.wrap_namespace", "PybindWrapper.wrap_file",
                          "PybindWrapper._gen_module_var", "PybindWrapper._partial_match", "PybindWrapper.wrap_enum",
                          "PybindWrapper.wrap_variable", "PybindWrapper.wrap_instantiated_declaration"])
    rep.outside = ["names longer than the bound", "more than the descriptor space of the census conditions"]
    rep.assumptions = ["Python's reserved words are keyword.kwlist of the analysing interpreter (3.12); soft keywords are not reserved",
                       "the documented special names (serialize, serializable, print, ipython _repr_ names, insert) are excluded from the plain-name conditions"]
    open_f, _ = load_known_findings("C03")
    xh.run(rep, conds(tier), open_f)
    return rep.finish()
