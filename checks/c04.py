"""C04 check (generator obligation only; see DESIGN.md 3/C04)."""
from checks import xhcheck


def run(tier):
    return xhcheck.run(
        "C04", "translation_validation", tier, ["harness.c04"],
        functions=["PybindWrapper.wrap_file", "wrap_namespace", "wrap_instantiated_class", "wrap_ctors", "wrap_methods", "_wrap_method",
                   "wrap_functions", "wrap_properties", "wrap_operators", "wrap_enums", "wrap_enum", "_py_args_names", "_method_args_signature",
                   "Type.to_cpp", "TemplatedType.to_cpp", "InstantiatedMethod.to_cpp", "InstantiatedStaticMethod.to_cpp",
                   "InstantiatedGlobalFunction.to_cpp", "InstantiatedClass.to_cpp", "Module.parseString", "instantiate_namespace"],
        assumptions=["trusted base: C++17 and pybind11 give the canonical forwarding forms their documented meaning",
                     "the reader in harness/readers.py recovers kind / python name / lambda parameters / callee / call arguments / py::arg list from the emitted text"],
        outside=["overload resolution at run time, holder / ownership semantics, anything that needs the module compiled and imported",
                 "declaration shapes beyond the per-condition bounds"],
        explanation="each generated binding is compared field by field with the declaration it was generated for")
