"""C05 check (shape-bounded; see DESIGN.md 3/C05)."""
from checks import xhcheck


def run(tier):
    return xhcheck.run(
        "C05", "model_checking", tier, ["harness.c05"],
        functions=["MatlabWrapper.wrap_namespace", "wrap_instantiated_class", "wrap_class_constructors", "wrap_class_methods",
                   "wrap_static_methods", "wrap_class_properties", "wrap_class_deconstructor", "wrap_global_function", "wrap_methods",
                   "_group_methods", "_expand_default_arguments", "_update_wrapper_id", "generate_wrapper", "generate_collector_function",
                   "mex_function", "wrap_class_serialize_method", "WrapperTemplate.*"],
        assumptions=["ids are concrete in every run: CrossHair realises a symbolic int at str.format / dict keys, so the claim is over all declaration shapes in the bounds, not over a symbolic id",
                     "reader: call sites are `<module>_wrapper(<id>` occurrences in the generated .m text; cases and routines are read from the generated MEX source"],
        outside=["more than three classes, shapes outside the decoded shape tables", "what MATLAB does with the ids at run time (C11, not applicable)"])
