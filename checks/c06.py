"""C06 check (see DESIGN.md 3/C06)."""
from checks import xhcheck


def run(tier):
    return xhcheck.run(
        "C06", "model_checking", tier, ["harness.c06"],
        functions=["MatlabWrapper._expand_default_arguments", "_group_methods", "wrap_class_constructors", "wrap_class_methods", "wrap_static_methods",
                   "wrap_global_function", "_wrap_variable_arguments", "_wrap_method_check_statement", "_unwrap_argument", "_wrapper_unwrap_arguments",
                   "wrap_collector_function_return", "_collector_return", "wrap_collector_function_return_types", "generate_collector_function",
                   "CheckMixin.*", "FormatMixin._format_type_name"],
        assumptions=["marshalling table (MATLAB isa type, unwrap function, C++ variable type, dereference rule, return wrapping) transcribed from the property statement and matlab.h's API",
                     "enum parameters are declared with their qualified name in the class's own namespace or class (what the generator resolves)"],
        outside=["parameter lists longer than 4", "templated callables (C02/C08 cover instantiation)", "enum types declared in a namespace other than the using class's"])
