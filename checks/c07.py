"""C07 — input is either fully understood or loudly rejected, never half-used.

Part G (here): SMT queries over the live grammar encoding — total consumption, bracket balance, token
accounting — every model replayed on the real parser.
Part X (harness/c07_io.py): corrupted inputs through both generators / scripts with a file-system recorder.
"""
import os
import time

import z3

from vlib import gram, xh
from vlib.common import Report, load_known_findings
from checks import gcommon


def _count_balance(tokens):
    d = {"{": 0, "(": 0}
    neg = False
    for t in tokens:
        if t == "{": d["{"] += 1
        if t == "}": d["{"] -= 1
        if t == "(": d["("] += 1
        if t == ")": d["("] -= 1
        if d["{"] < 0 or d["("] < 0:
            neg = True
    return d, neg


def grammar_part(rep, tier):
    N = 10 if tier == "quick" else 16
    budget = 120 if tier == "quick" else 1200
    G, parser = gcommon.load_grammar()
    import pyparsing as pp
    from harness.project import project
    rep.functions.update(["gtwrap.interface_parser.Module.rule (live object graph, %d nodes: %s)" % (len(G.nodes), ", ".join(G.node_types)),
                          "Module.parseString (replay)"])
    rep.bounds["grammar_queries"] = {"max_tokens": N, "vocabulary": G.V, "layout": "single space between tokens"}
    # -- precondition of the encoding: ignorables only eat comments -------------------------------
    for ig, v in G.ign_token_hazards:
        a = "%s class A { };" % (v if v != "#include" else "#include <a.h>")
        b = "class A { };"
        try:
            same = project(parser.Module.parseString(a)) == project(parser.Module.parseString(b))
        except Exception:
            same = False
        if same:
            rep.violation("ignorable expression %s silently swallows the token %r: %r parses to the same tree as %r" % (ig, v, a, b),
                          dict(kind="c07-ignorable", text=a, reference=b))
        else:
            rep.harness_error("ignorable %s matches vocabulary token %r; the encoding assumes ignorables only match comments" % (ig, v))
    gcommon.comment_anomalies(rep, G, "C07")
    rep.cond("c07.comments_are_exactly_skipped", "real ignorable objects tabulated on comment exemplars", "confirmed" if not G.ign_anomalies else "counterexample", 0.0,
             "%d comment exemplars x %d ignorable expressions" % (len(gram.COMMENTS), len(G.ignorables)))
    tok, length = gram.mk_stream(N)
    t0 = time.time()
    try:
        E = gram.Enc(G, N, tok, length, "p", mode="peg", sep_fixed=1, track_bad=True)
        res = E.results()
    except gram.Unsupported as ex:
        rep.harness_error("grammar uses a construct the encoder does not support: %s" % ex)
        return
    t_enc = time.time() - t0
    acc = gram.Or_([b for b, _ in res.values()])
    s = gcommon.new_solver(budget)
    s.add(E.defs)
    s.add(gram.stream_constraints(G, N, tok, length))
    s.add(E.default_domain())
    s.add(E.include_domain())
    rep.extra["encoding"] = {"definitions": len(E.defs), "encode_seconds": round(t_enc, 1), "N": N}
    V = G.V

    # witness / vacuity
    s.push(); s.add(acc, length == N)
    r, m, dt = gcommon.check(s, rep, "witness", N)
    if r != "sat":
        rep.harness_error("vacuity witness (an accepted stream of exactly %d tokens) is %s" % (N, r))
    else:
        rep.sample({"witness_accepted_stream": E.render(m)})
    rep.cond("c07.witness_full_length", "z3 grammar encoding", "confirmed" if r == "sat" else "error", dt, "reachability witness must be sat", bounds="N=%d" % N)
    s.pop()

    # model validation against the real parser
    gcommon.validate_model(rep, G, E, s, acc, n_each=10 if tier == "quick" else 30)

    # Q1 total consumption
    s.push()
    s.add(gram.Or_([z3.And(b, length != c[0]) for c, (b, _) in res.items()]))
    r, m, dt = gcommon.check(s, rep, "consumption", N)
    verdict = {"unsat": "confirmed", "sat": "counterexample"}.get(r, "inconclusive(timeout)")
    if r == "sat":
        text = E.render(m)
        try:
            parser.Module.parseString(text)
            accepted = True
        except Exception:
            accepted = False
        try:
            parser.Module.rule.parseString(text, parseAll=True)
            whole = True
        except Exception:
            whole = False
        rep.extra["replayed"] = rep.extra.get("replayed", 0) + 1
        if accepted and not whole:
            rep.violation("parser accepts %r although only a prefix of it is consumed" % text, dict(kind="c07-consumption", text=text))
        else:
            rep.harness_error("consumption model %r did not reproduce (accepted=%s whole=%s)" % (text, accepted, whole)); verdict = "error"
    rep.cond("c07.total_consumption", "z3 grammar encoding", verdict, dt, "exists accepted stream with unconsumed suffix?", bounds="all token strings of length<=%d" % N)
    s.pop()

    # Q2 bracket balance
    s.push()
    def cnt(sym_open, sym_close, upto):
        io, ic, ipair = V.index(sym_open), V.index(sym_close), None
        return z3.Sum([z3.If(z3.And(length > k, tok[k] == io), 1, 0) - z3.If(z3.And(length > k, tok[k] == ic), 1, 0) for k in range(upto)])
    bads = []
    for o, c in (("{", "}"), ("(", ")")):
        bads.append(cnt(o, c, N) != 0)
        for k in range(1, N):
            bads.append(cnt(o, c, k) < 0)
    s.add(acc, z3.Or(bads))
    r, m, dt = gcommon.check(s, rep, "balance", N)
    verdict = {"unsat": "confirmed", "sat": "counterexample"}.get(r, "inconclusive(timeout)")
    if r == "sat":
        text = E.render(m)
        d, neg = _count_balance(E.tokens(m))
        try:
            parser.Module.parseString(text); accepted = True
        except Exception:
            accepted = False
        rep.extra["replayed"] = rep.extra.get("replayed", 0) + 1
        if accepted and (neg or any(d.values())):
            rep.violation("parser accepts %r with unbalanced brackets" % text, dict(kind="c07-balance", text=text))
        else:
            rep.harness_error("balance model %r did not reproduce" % text); verdict = "error"
    rep.cond("c07.bracket_balance", "z3 grammar encoding", verdict, dt, "exists accepted stream whose {} or () nesting goes negative or ends open?", bounds="length<=%d" % N)
    s.pop()

    # Q3 accounting: content token consumed by a suppressed non-fixed leaf
    s.push()
    s.add(gram.Or_([bad for _, (b, bad) in res.items()]))
    r, m, dt = gcommon.check(s, rep, "accounting", N)
    verdict = {"unsat": "confirmed", "sat": "counterexample"}.get(r, "inconclusive(timeout)")
    if r == "sat":
        text = E.render(m)
        toks = E.tokens(m)
        reproduced = None
        try:
            base = project(parser.Module.parseString(text))
            for k, t in enumerate(toks):
                alts = ["Zq9"] if (t[0].isalpha() or t[0] == "_") else []
                if t in gram.CONTENT_FIXED:
                    alts = [""]
                for a in alts:
                    t2 = toks[:k] + ([a] if a else []) + toks[k + 1:]
                    try:
                        if project(parser.Module.parseString(" ".join(t2))) == base:
                            reproduced = (k, t, " ".join(t2))
                    except Exception:
                        pass
        except Exception:
            pass
        rep.extra["replayed"] = rep.extra.get("replayed", 0) + 1
        if reproduced:
            rep.violation("token %r of accepted input %r is not accounted for: %r parses to the same tree" % (reproduced[1], text, reproduced[2]),
                          dict(kind="c07-accounting", text=text, other=reproduced[2]))
        else:
            rep.harness_error("accounting model %r did not reproduce" % text); verdict = "error"
    rep.cond("c07.token_accounting", "z3 grammar encoding", verdict, dt,
             "exists accepted stream in which a content token is consumed by a leaf under Suppress?", bounds="length<=%d" % N)
    s.pop()
    rep.paths += len(E.defs)
    reference_inclusion(rep, tier, G, parser)


def reference_inclusion(rep, tier, G, parser):
    """exists a token string (<= NR tokens) that the LIVE grammar accepts and the independent reference grammar does
    not derive?  Both sides are z3 relations over the same symbolic stream; the reference (harness/refsym.py) is the
    context-free dialect of DOCS.md, so a model is an input of which the parser "understood" something the dialect
    does not contain (a token consumed and dropped, a clause in a place where it means nothing)."""
    from harness import refsym
    NR = int(os.environ.get("VERIF_C07_NR", 0)) or (13 if tier == "quick" else 17)
    budget = 300 if tier == "quick" else 3000
    tok, length = gram.mk_stream(NR, "r")
    t0 = time.time()
    try:
        E = gram.Enc(G, NR, tok, length, "q", mode="peg", sep_fixed=1)
        acc = E.accepts()
    except gram.Unsupported as ex:
        rep.harness_error("grammar uses a construct the encoder does not support: %s" % ex)
        return
    R = refsym.Sym(G.V, NR, tok, length)
    racc = R.accepts()
    t_enc = time.time() - t0
    s = gcommon.new_solver(budget)
    s.add(E.defs)
    s.add(gram.stream_constraints(G, NR, tok, length))
    s.add(E.default_domain())
    s.add(E.include_domain())
    rep.functions.add("harness/refsym.py RULES (reference grammar, %d rule instances encoded)" % R.nodes)
    # the symbolic reference against the concrete recogniser, on solver-chosen streams from both sides
    nval = 0
    for side, cond in (("derives", racc), ("does not derive", z3.And(z3.Not(racc), length >= 3))):
        s.push(); s.add(cond)
        for _ in range(8 if tier == "quick" else 25):
            if str(s.check()) != "sat":
                break
            m = s.model()
            toks = E.tokens(m)
            if refsym.concrete(toks) != (side == "derives"):
                rep.harness_error("symbolic reference grammar says %r %s, the concrete recogniser disagrees" % (" ".join(toks), side))
            nval += 1
            L = len(toks)
            s.add(z3.Or([tok[k] != m.eval(tok[k], model_completion=True) for k in range(L)] + [length != L]))
        s.pop()
    rep.extra["reference_validation_cases"] = nval
    s.push()
    s.add(acc, z3.Not(racc))
    r, m, dt = gcommon.check(s, rep, "reference-inclusion", NR)
    verdict = {"unsat": "confirmed", "sat": "counterexample"}.get(r, "inconclusive(timeout)")
    if r == "sat":
        toks, text = E.tokens(m), E.render(m)
        try:
            parser.Module.parseString(text); accepted = True
        except Exception:
            accepted = False
        rep.extra["replayed"] = rep.extra.get("replayed", 0) + 1
        if accepted and not refsym.concrete(toks):
            rep.violation("parser accepts %r, which is not a sequence of declarations of the dialect (reference grammar rejects it)" % text,
                          dict(kind="c07-reference", text=text, tokens=toks))
        else:
            rep.harness_error("reference-inclusion model %r did not reproduce (real parser accepts=%s, concrete reference accepts=%s)" % (text, accepted, refsym.concrete(toks)))
            verdict = "error"
    rep.cond("c07.reference_inclusion", "z3: live grammar encoding vs reference grammar encoding", verdict, dt + t_enc,
             "exists a token string accepted by the live grammar that the reference grammar does not derive?", bounds="all token strings of length<=%d over %d spellings" % (NR, len(G.V)))
    s.pop()
    rep.paths += len(E.defs)
    rep.bounds["reference_inclusion"] = {"max_tokens": NR, "layout": "single space between tokens", "identifier rule": "relaxed (reserved words may be identifiers)"}


def run(tier):
    rep = Report("C07", tier, "model_checking")
    rep.assumptions = ["token-level model: leaves and ignorables tabulated by calling the real pyparsing objects on the vocabulary",
                       "default-value expressions are one atom token followed by , ; or ) (verbatim region, not re-tokenised)",
                       "termination is observed (every run returned), not proved"]
    rep.outside = ["inputs longer than N tokens", "character-level corruption inside a token", "parse actions (tree construction)"]
    grammar_part(rep, tier)
    if os.path.exists(os.path.join(os.path.dirname(__file__), "..", "harness", "c07_io.py")):
        from harness import c07_io
        open_f, _ = load_known_findings("C07")
        xh.run(rep, c07_io.conds(tier), open_f)
    rep.extra["rule"] = "states = definitions of the grammar encoding + CrossHair paths; transitions = SMT queries + conditions"
    return rep.finish()


def replay(payload):
    import gtwrap.interface_parser as parser
    kind = payload.get("kind")
    text = payload.get("text", "")
    if kind == "c07-reference":
        from harness import refsym
        try:
            parser.Module.parseString(text); accepted = True
        except Exception as ex:
            accepted = False
        ref = refsym.concrete(payload.get("tokens", []))
        print("real parser %s %r; reference grammar %s it" % ("ACCEPTS" if accepted else "rejects", text, "derives" if ref else "does not derive"))
        if accepted and not ref:
            print("VIOLATION property=C07 replay=(replayed)")
            return 1
        return 0
    if kind in ("c07-consumption", "c07-balance"):
        try:
            parser.Module.parseString(text)
            print("real parser ACCEPTS %r" % text)
            print("VIOLATION property=C07 replay=(replayed)")
            return 1
        except Exception as ex:
            print("real parser rejects:", type(ex).__name__)
            return 0
    from vlib.main import generic_replay
    return generic_replay(payload)
