"""C08 check: instantiation naming (spelling-symbolic) + product/order/typedef census (shape-bounded)."""
import os
from vlib.common import Report, load_known_findings
from vlib import xh


def conds(tier):
    q = tier == "quick"
    M = "harness.c08"
    t = (lambda a, b: a) if q else (lambda a, b: b)
    la = 5 if q else 7
    cs = [
        xh.Cond(M, "c08_name_single", t(150, 900), examples=["a='double'", "a='aa'", "a='Point3'", "a='size_t'"],
                bounds="all argument names of length <= %d" % la),
        xh.Cond(M, "c08_name_nested", t(300, 1500), examples=["a='vec', bsel=0", "a='aXa', bsel=1", "a='q', bsel=3"], bounds="symbolic outer name, len(a) <= %d; %d fixed inner names" % ((2, 2) if q else (3, 4))),
        xh.Cond(M, "c08_all_names", t(200, 600), kind="shape-bounded", examples=["head=0, second=12", "head=4, second=3", "head=11, second=8"],
                bounds="every argument tree over 4 names x 3 namespaces with up to 2 template arguments of up to 2 leaf arguments each (sub-sampled at depth 2), alone and followed by a second argument"),
        xh.Cond(M, "c08_class_and_members", t(300, 1800), examples=["a='Pose'", "a='pose'", "a='dd'"], bounds="all argument names of length <= %d" % (3 if q else 5)),
    ]
    if os.path.exists(os.path.join(os.path.dirname(__file__), "..", "harness", "c08_product.py")):
        from harness import c08_product
        cs += c08_product.conds(tier)
    return cs


def run(tier):
    rep = Report("C08", tier, "model_checking")
    rep.functions.update(["helpers.instantiate_name", "Typename.instantiated_name", "namespace.instantiate_namespace",
                          "InstantiatedClass.__init__/to_cpp/cpp_typename", "InstantiatedMethod.to_cpp",
                          "InstantiatedGlobalFunction.__init__/to_cpp", "InstantiatedDeclaration", "Namespace.find_class_or_function"])
    open_f, _ = load_known_findings("C08")
    xh.run(rep, conds(tier), open_f)
    return rep.finish()
