"""C09 check — the four textual obligations only; compilation itself is not decided (see DESIGN.md 3/C09)."""
from checks import xhcheck


def run(tier):
    return xhcheck.run(
        "C09", "other", tier, ["harness.c09"],
        functions=["PybindWrapper.wrap_file", "wrap_namespace", "wrap_variable", "wrap_enum", "wrap_functions", "_wrap_method", "wrap_ctors",
                   "_add_namespaces", "_gen_module_var", "Type.to_cpp", "TemplatedType.to_cpp", "Typename.to_cpp", "instantiate_type"],
        assumptions=["no C++ compiler is run: only the four textual obligations listed in the property are decided",
                     "declared names are computed by the harness builders from the same descriptors that produce the interface text"],
        outside=["type checking, overload resolution, anything a compiler would additionally reject", "the user-supplied module template"],
        explanation="for every solver-enumerated shape the generated translation unit is tokenised and checked for (i) leftover template parameters, (ii) qualified names not declared / written / library, (iii) lambda / py::arg / call arity, (iv) bracket and quote balance")
