"""C10 check (see DESIGN.md 3/C10)."""
from checks import xhcheck


def run(tier):
    return xhcheck.run(
        "C10", "model_checking", tier, ["harness.c10"],
        functions=["MatlabWrapper.wrap_namespace", "wrap_instantiated_class", "wrap_enum", "wrap_methods", "wrap_global_function", "wrap_properties_block",
                   "wrap_class_constructors", "wrap_class_deconstructor", "wrap_class_methods", "wrap_static_methods", "wrap_class_properties",
                   "generate_preamble", "generate_wrapper", "generate_content", "FormatMixin._clean_class_name", "WrapperTemplate.typdef_collectors/delete_obj/rtti_register"],
        assumptions=["two readings of the toolbox: the content tree flattened by a mirror of generate_content's path assembly, and the files the real generate_content writes to an in-memory file system",
                     "expected census computed from the declaration descriptors (harness/c10.py:check_census)"],
        outside=["more than two user classes per toolbox in this check (C05 covers three)", "template instantiation naming (C08)"])
