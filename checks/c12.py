"""C12 — layout and comments never change the result (parser level).

One symbolic token vector, two symbolic separator vectors, the live grammar encoded twice: is there a
stream accepted under one layout and rejected under the other?  Every model is rendered both ways and the
real parser's verdicts / canonical tree projections are compared; only a real difference is reported.
"""
import os
import time

import z3

from vlib import gram
from vlib.common import Report
from checks import gcommon


def real_outcome(parser, project, text):
    try:
        return ("tree", project(parser.Module.parseString(text)))
    except Exception as ex:
        return ("reject", type(ex).__name__)


def run(tier):
    rep = Report("C12", tier, "model_checking")
    quick = tier == "quick"
    N = 6 if quick else 9
    budget = 200 if quick else 1500
    seps = [(), ("W",), ("W", 0, "W"), (0,), ("W", 1, "W")]
    if not quick:
        seps += [("W", 2, "W"), ("W", 3, "W"), ("W", 0, "W", 1, "W"), (4,), ("W", 6, "W")]
    G, parser = gcommon.load_grammar()
    from harness.project import project
    rep.functions.update(["gtwrap.interface_parser.Module.rule (live object graph, %d nodes)" % len(G.nodes),
                          "per-node skipWhitespace / ignoreExprs / callPreparse attributes", "Module.parseString (replay)"])
    rep.assumptions = [
        "re-layout domain: a default value / initialiser is one atom token followed by , ; or ) with no comment GLUED to the atom (`5/*c*/` is lexed as default text: verbatim region); a comment after whitespace is inside the domain",
        "a brace list after = occurs only in a template header",
        "an include header is one path token glued to its < > (CharsNotIn keeps whitespace/comments as header text)",
        "`unsigned char`, `enum class`, `enum struct`, `#include`, `std::` are single tokens as tokens.py defines them",
        "byte-identity of generator output follows from the generators being functions of the tree (C14), not re-checked here",
    ]
    rep.outside = ["streams longer than N tokens", "layout inside verbatim regions", "character-level choice of whitespace (space vs tab vs newline)"]
    rep.bounds = {"max_tokens": N, "separators": [[gram.COMMENTS[x] if x != "W" else "<ws>" for x in s] for s in seps],
                  "vocabulary_size": len(G.V)}
    gcommon.comment_anomalies(rep, G, "C12")
    rep.cond("c12.comments_are_exactly_skipped", "real ignorable objects tabulated on comment exemplars",
             "confirmed" if not G.ign_anomalies else "counterexample", 0.0,
             "%d comment exemplars x %d ignorable expressions" % (len(gram.COMMENTS), len(G.ignorables)))
    # the repository's own test inputs, re-laid-out on the real parser (validation corpus, see DESIGN 7.3)
    from vlib.common import REPO
    tc = time.time()
    nv = len(rep.violations)
    ncorp = gcommon.corpus_layout_check(rep, G, REPO, limit=260 if quick else 1000)
    rep.cond("c12.fixture_declarations_relayout", "real parser on 7 layouts of each fixture declaration (validation corpus)",
             "confirmed" if len(rep.violations) == nv else "counterexample", time.time() - tc, "%d declarations of tests/fixtures/*.i" % ncorp)
    tok, length = gram.mk_stream(N)
    t0 = time.time()
    try:
        E1 = gram.Enc(G, N, tok, length, "a", seps=seps)
        E2 = gram.Enc(G, N, tok, length, "b", seps=seps)
        acc1, acc2 = E1.accepts(), E2.accepts()
    except gram.Unsupported as ex:
        rep.harness_error("grammar uses a construct the encoder does not support: %s" % ex)
        return rep.finish()
    t_enc = time.time() - t0
    rep.extra["encoding"] = {"definitions": len(E1.defs) + len(E2.defs), "encode_seconds": round(t_enc, 1), "N": N}
    s = gcommon.new_solver(budget)
    s.add(E1.defs); s.add(E2.defs)
    s.add(gram.stream_constraints(G, N, tok, length))
    for E in (E1, E2):
        s.add(E.domain()); s.add(E.default_domain()); s.add(E.include_domain())
    comment_kinds = [i for i, sg in enumerate(seps) if any(x != "W" for x in sg)]

    # witness: an accepted stream of full length that has a comment somewhere
    s.push(); s.add(acc1, length == N, z3.Or([E1.sep[k] == c for k in range(1, N) for c in comment_kinds]))
    r, m, dt = gcommon.check(s, rep, "witness", N)
    if r == "sat":
        text = E1.render(m)
        out = real_outcome(parser, project, text)
        rep.sample({"witness_with_comment": text, "real_parser": out[0]})
        if out[0] != "tree":
            rep.harness_error("witness %r accepted by the model is rejected by the real parser" % text)
    else:
        rep.harness_error("vacuity witness is %s" % r)
    rep.cond("c12.witness", "z3 grammar encoding x2", "confirmed" if r == "sat" else "error", dt, "reachability witness must be sat")
    s.pop()

    # model validation, with layouts
    gcommon.validate_model(rep, G, E1, s, acc1, n_each=8 if quick else 25, relayout=True)

    # candidates from the context-free reading of the same graph (lookaheads over-approximated): streams the
    # PEG model rejects but that may be real; each real-accepted one is re-laid-out on the real parser
    try:
        EC = gram.Enc(G, N, tok, length, "c", mode="cfg", seps=seps)
        accc = EC.accepts()
        s.push(); s.add(EC.defs); s.add(EC.domain()); s.add(EC.default_domain()); s.add(EC.include_domain())
        s.add(accc, gram.Not_(acc1), z3.And([EC.sep[k] == E1.sep[k] for k in range(N + 1)]))
        ncand = 0
        for it in range(6):
            r, m, dt = gcommon.check(s, rep, "cfg-candidates", N)
            if r != "sat":
                break
            ncand += 1
            toks = E1.tokens(m)
            if real_outcome(parser, project, " ".join(toks))[0] == "tree":
                if gcommon.layout_differential(rep, G, toks):
                    break
            L = m.eval(length, model_completion=True).as_long()
            s.add(z3.Or([tok[k] != m.eval(tok[k], model_completion=True) for k in range(L)] + [length != L]))
        s.pop()
        rep.cond("c12.cfg_guided_candidates", "z3 grammar encoding (CFG reading vs PEG reading)", "confirmed" if ncand == 0 else "counterexample" if rep.violations else "inconclusive(model-mismatch)", 0.0,
                 "%d streams accepted by the CFG reading but not by the PEG model" % ncand)
    except gram.Unsupported as ex:
        rep.harness_error("CFG reading unsupported: %s" % ex)

    # the query
    s.push(); s.add(acc1, gram.Not_(acc2))
    found = 0
    verdict = "confirmed"
    total = 0.0
    for it in range(4):
        r, m, dt = gcommon.check(s, rep, "layout", N)
        total += dt
        if r == "unsat":
            break
        if r != "sat":
            verdict = "inconclusive(timeout)"
            break
        a, b = E1.render(m), E2.render(m)
        oa, ob = real_outcome(parser, project, a), real_outcome(parser, project, b)
        rep.extra["replayed"] = rep.extra.get("replayed", 0) + 1
        if oa != ob:
            found += 1
            verdict = "counterexample"
            rep.violation("two layouts of the same tokens differ: %r -> %s, %r -> %s" % (a, oa[0] if oa[0] == "tree" else oa, b, ob[0] if ob[0] == "tree" else ob),
                          dict(kind="c12-layout", a=a, b=b))
            break
        rep.harness_error("layout model did not reproduce: %r / %r both give %s" % (a, b, oa[0]))
        verdict = "error"
        L = m.eval(length, model_completion=True).as_long()
        s.add(z3.Or([tok[k] != m.eval(tok[k], model_completion=True) for k in range(L)] + [length != L]))
    rep.cond("c12.layout_difference", "z3 grammar encoding x2", verdict, total,
             "exists tokens t and separator vectors s, s' with accept(t,s) and not accept(t,s')?",
             bounds="length<=%d, %d separator kinds per boundary" % (N, len(seps)))
    s.pop()
    rep.paths += len(E1.defs) + len(E2.defs)
    canonical_vs_layouts(rep, tier, G, parser, project)
    rep.extra["rule"] = "states = Boolean definitions of the two grammar encodings; transitions = SMT queries"
    return rep.finish()


def canonical_vs_layouts(rep, tier, G, parser, project):
    """A cheaper, deeper variant of the layout query: one side is the canonical layout (one blank between tokens, a
    much smaller encoding), the other side has a symbolic separator at every boundary drawn from four kinds (nothing,
    blank, blank-comment-blank, glued comment).  exists t, s: accept_canonical(t) != accept(t, s)?"""
    quick = tier == "quick"
    NL = int(os.environ.get("VERIF_C12_NL", 0)) or (9 if quick else 12)
    seps = ((), ("W",), ("W", 0, "W"), (0,))
    tok, length = gram.mk_stream(NL, "l")
    t0 = time.time()
    try:
        Ef = gram.Enc(G, NL, tok, length, "lf", mode="peg", sep_fixed=1)
        Ev = gram.Enc(G, NL, tok, length, "lv", seps=seps)
        accf, accv = Ef.accepts(), Ev.accepts()
    except gram.Unsupported as ex:
        rep.harness_error("grammar uses a construct the encoder does not support: %s" % ex)
        return
    t_enc = time.time() - t0
    s = gcommon.new_solver(600 if quick else 3600)
    s.add(Ef.defs); s.add(Ev.defs); s.add(gram.stream_constraints(G, NL, tok, length))
    s.add(Ef.default_domain()); s.add(Ef.include_domain())
    s.add(Ev.domain()); s.add(Ev.default_domain()); s.add(Ev.include_domain())
    verdict, total = "confirmed", 0.0
    for name, q in (("canonical accepts, a layout rejects", z3.And(accf, gram.Not_(accv))), ("a layout accepts, canonical rejects", z3.And(accv, gram.Not_(accf)))):
        s.push(); s.add(q)
        r, m, dt = gcommon.check(s, rep, "canonical-layout", NL)
        total += dt
        if r == "sat":
            a, b = Ef.render(m), Ev.render(m)
            oa, ob = real_outcome(parser, project, a), real_outcome(parser, project, b)
            rep.extra["replayed"] = rep.extra.get("replayed", 0) + 1
            if oa != ob:
                verdict = "counterexample"
                rep.violation("two layouts of the same tokens differ: %r -> %s, %r -> %s" % (a, oa[0] if oa[0] == "tree" else oa, b, ob[0] if ob[0] == "tree" else ob),
                              dict(kind="c12-layout", a=a, b=b))
            else:
                rep.harness_error("canonical-layout model did not reproduce: %r / %r both give %s" % (a, b, oa[0]))
                verdict = "error"
            s.pop()
            break
        if r != "unsat":
            verdict = "inconclusive(timeout)"
        s.pop()
    rep.cond("c12.canonical_vs_layouts", "z3 grammar encoding (canonical layout) vs z3 grammar encoding (symbolic separators)", verdict, total + t_enc,
             "exists tokens t and separators s with accept(t, canonical) != accept(t, s)?", bounds="length<=%d, %d separator kinds per boundary" % (NL, len(seps)))
    rep.paths += len(Ef.defs) + len(Ev.defs)
    rep.bounds["canonical_vs_layouts"] = {"max_tokens": NL, "separators": ["", "<ws>", "<ws>/*c*/<ws>", "/*c*/"]}


def replay(payload):
    import gtwrap.interface_parser as parser
    from harness.project import project
    if payload.get("kind") == "c12-layout":
        oa, ob = real_outcome(parser, project, payload["a"]), real_outcome(parser, project, payload["b"])
        print(repr(payload["a"]), "->", oa[0]); print(repr(payload["b"]), "->", ob[0])
        if oa != ob:
            print("VIOLATION property=C12 replay=(replayed)")
            return 1
        return 0
    if payload.get("kind") == "comment-diff":
        oa, ob = real_outcome(parser, project, payload["text"]), real_outcome(parser, project, payload["reference"])
        if oa != ob:
            print("VIOLATION property=C12 replay=(replayed)")
            return 1
        return 0
    return 2
