"""C13 check (see DESIGN.md 3/C13)."""
from checks import xhcheck


def run(tier):
    return xhcheck.run(
        "C13", "model_checking", tier, ["harness.c13"],
        functions=["instantiate_namespace", "InstantiatedClass.__init__", "InstantiationHelper.multilevel_instantiation", "helpers.instantiate_type",
                   "instantiate_template_args", "InstantiatedGlobalFunction.__init__", "PybindWrapper.wrap_instantiated_class", "MatlabWrapper (classdef text)"],
        assumptions=["projection of instantiated entities by harness/project.py", "MATLAB classdefs compared after replacing gateway ids"],
        outside=["instantiation lists longer than 3", "renamings longer than the bound"])
