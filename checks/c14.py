"""C14 check — reduced scope: in-process history and I/O footprint (see DESIGN.md 3/C14)."""
from checks import xhcheck


def run(tier):
    return xhcheck.run(
        "C14", "other", tier, ["harness.c14"],
        functions=["PybindWrapper.wrap_file", "PybindWrapper._wrap_serialization", "PybindWrapper.wrap", "PybindWrapper.wrap_submodule",
                   "MatlabWrapper.wrap", "MatlabWrapper.generate_content", "XMLDocParser.determine_documenting_index"],
        assumptions=["file system observed through recorder replacements of the module-level names open / os",
                     "history induction step: pre-state = wrapper after 0-2 completed wrap_file calls over the text pool"],
        outside=["PYTHONHASHSEED, locale, working directory, separate processes, concurrent writers: properties of the interpreter / OS, not assertions over program variables — not decided",
                 "MatlabWrapper reuse (one wrapper object per module is the supported use)"],
        explanation="solver-enumerated call histories on one PybindWrapper compared with a fresh wrapper; file-system footprint of the three entry points recorded and compared with the request")
