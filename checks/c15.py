"""C15 check (see DESIGN.md 3/C15)."""
from checks import xhcheck


def run(tier):
    return xhcheck.run(
        "C15", "model_checking", tier, ["harness.c15"],
        functions=["PybindWrapper.wrap_instantiated_class", "PybindWrapper.wrap_enums", "PybindWrapper.wrap_namespace", "PybindWrapper.wrap_file",
                   "MatlabWrapper.wrap_instantiated_class", "MatlabWrapper.wrap_namespace", "MatlabWrapper.generate_preamble", "MatlabWrapper.generate_wrapper"],
        assumptions=["MATLAB ids are compared after renumbering by order of first appearance",
                     "the removed / ignored class is not referenced by the remaining declarations"],
        outside=["more than one ignored class at a time", "ignore entries for template instantiations other than the generated names"])
