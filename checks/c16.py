"""C16 check (see DESIGN.md 3/C16)."""
from checks import xhcheck


def run(tier):
    return xhcheck.run(
        "C16", "model_checking", tier, ["harness.c16"],
        functions=["MatlabWrapper.wrap (file concatenation)", "PybindWrapper.wrap", "PybindWrapper.wrap_submodule", "PybindWrapper.wrap_file",
                   "scripts/pybind_wrap.py main()", "scripts/matlab_wrap.py __main__", "MatlabWrapper.generate_content"],
        assumptions=["file system replaced by an in-memory recorder through the module-level names open / os of gtwrap.pybind_wrapper and gtwrap.matlab_wrapper.wrapper",
                     "reference lexer of the restricted alphabet in harness/c16.py:ref_lex; file1 ending inside a block comment is not a complete file and is outside the claim",
                     "the scripts are executed in-process with runpy and a patched sys.argv"],
        outside=["linking and importing the combined module", "CMake (PybindWrap.cmake / MatlabWrap.cmake)", "file stems that are not C identifiers"])
