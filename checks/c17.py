"""C17 check (see DESIGN.md 3/C17)."""
from checks import xhcheck


def run(tier):
    return xhcheck.run(
        "C17", "model_checking", tier, ["harness.c17"],
        functions=["PybindWrapper._wrap_method (docstring literal)", "PybindWrapper._cpp_string_literal", "XMLDocParser.extract_docstring",
                   "XMLDocParser.filter_member_defs", "XMLDocParser.determine_documenting_index", "XMLDocParser.get_formatted_docstring",
                   "PybindWrapper.wrap_file (with and without xml_source)"],
        assumptions=["reference decoder harness/c17.py:c_decode = C++17 ordinary string literal with UTF-8 source and execution character sets (simple, octal, greedy hex, \\u/\\U escapes)",
                     "get_member_defs is stubbed to return xml.etree elements built by the harness (file lookup / index.xml is exercised concretely only)",
                     "surrogate code points are excluded (not Unicode scalar values)"],
        outside=["texts longer than the bound for the all-text condition", "Doxygen XML shapes beyond the 12 member-definition shapes", "pre-C++17 trigraphs"])
