"""C18 — matlab.h converts values without loss (scalars, vectors, matrices).  Engine L."""
import os
import shutil
import subprocess
import time

import z3

from vlib import llir
from vlib.llir import bv, F64, CLASS
from vlib.common import Report, load_known_findings

W = "_Z4wrapI%sEP11mxArray_tagRKT_"
U = "_Z6unwrapI%sET_PK11mxArray_tag"
SCALARS = [("int", "i", 32), ("size_t", "m", 64), ("char", "c", 8), ("uchar", "h", 8), ("bool", "b", 1), ("double", "d", 64)]
VEC = {"vector": "N5gtsam6VectorE", "point2": "N5gtsam6Point2E", "point3": "N5gtsam6Point3E"}


class Native:
    """the real header compiled natively with the mock runtime: the replay oracle"""

    def __init__(self, workdir):
        self.exe = os.path.join(workdir, "drv")
        here = os.path.dirname(os.path.dirname(os.path.abspath(__file__)))
        p = subprocess.run(["clang++-14", "-std=c++17", "-O1", "-I", os.path.join(here, "mock"),
                            '-DMATLAB_H_PATH="%s/matlab.h"' % os.environ.get("GTWRAP_REPO", "/repo"), os.path.join(here, "mock", "rt", "driver.cpp"), "-o", self.exe],
                           capture_output=True, text=True)
        self.ok = p.returncode == 0
        self.err = p.stderr[-1500:]

    def run(self, *args):
        p = subprocess.run([self.exe] + [str(a) for a in args], capture_output=True, text=True, timeout=30)
        return p.stdout.strip()


def hx(v):
    return "%x" % v


def solve(rep, name, constraints, timeout=120):
    s = z3.Solver()
    s.set("timeout", timeout * 1000)
    s.add(constraints)
    t0 = time.time()
    r = str(s.check())
    rep.queries += 1
    return r, (s.model() if r == "sat" else None), time.time() - t0


def scalar_roundtrips(rep, ex, nat):
    for tname, code, w in SCALARS:
        dbl = tname == "double"
        mem = llir.Mem()
        v = z3.Bool("v") if w == 1 else z3.BitVec("v", w)      # doubles are carried as their 64 IEEE bits
        cell = mem.new("bytes", [bv(0, 8)] * 8)
        ex.store(mem, ("ptr", cell, bv(0, 64)), "double" if dbl else "i%d" % w, v)
        verdict, total, detail = "confirmed", 0.0, ""
        r1 = ex.run(W % code, [("ptr", cell, bv(0, 64))], [], mem)
        nret = 0
        for pc, o, m1 in r1:
            if o[0] == "ERROR":
                r, m, dt = solve(rep, "err", pc); total += dt
                if r == "sat":
                    verdict = "counterexample"; detail = "wrap<%s> reports an error" % tname
                continue
            mx = o[1][1]
            # wrapped array is a 1x1 array
            r, m, dt = solve(rep, "dims", pc + [z3.Or(mx.M != 1, mx.N != 1)]); total += dt
            if r != "unsat":
                verdict = "counterexample" if r == "sat" else "inconclusive(timeout)"; detail = "wrap<%s> does not produce a 1x1 array" % tname
            for pc2, o2, _ in ex.run(U % code, [o[1]], pc, m1):
                if o2[0] == "ERROR":
                    r, m, dt = solve(rep, "err2", pc2); total += dt
                    bad = r == "sat"
                    witness = m
                else:
                    nret += 1
                    rv = o2[1]
                    neq = rv != v
                    r, m, dt = solve(rep, "neq", pc2 + [neq]); total += dt
                    bad = r == "sat"
                    witness = m
                    if r == "unknown":
                        verdict = "inconclusive(timeout)"
                if bad:
                    val = witness.eval(z3.If(v, bv(1, 8), bv(0, 8)) if w == 1 else v, model_completion=True).as_long()
                    out = nat.run("scalar", tname, hx(val))
                    rep.extra["replayed"] = rep.extra.get("replayed", 0) + 1
                    if out != "OK %016x" % val:
                        verdict = "counterexample"
                        rep.violation("unwrap<%s>(wrap<%s>(0x%x)) gives %s" % (tname, tname, val, out), dict(kind="c18", args=["scalar", tname, hx(val)], expect="OK %016x" % val))
                    elif ex.fp_conversions:
                        # the path converts a double to an integer; out of range that is undefined behaviour whose native
                        # result z3 does not predict: reported separately, not as a violation and not as a harness error
                        rep.extra.setdefault("ub_notes", []).append("unwrap<%s>(wrap<%s>(0x%x)): model differs from the native run (%s) on a path with fptosi/fptoui" % (tname, tname, val, out))
                        if verdict == "confirmed":
                            verdict = "inconclusive(ub)"
                    else:
                        rep.harness_error("IR counterexample for %s value 0x%x does not reproduce natively (%s)" % (tname, val, out)); verdict = "error"
        if nret == 0 and verdict == "confirmed":
            rep.harness_error("no returning path in unwrap<%s>(wrap<%s>(v))" % (tname, tname)); verdict = "error"
        rep.cond("c18.roundtrip_" + tname, "LLVM IR -> z3 (bit-vectors / IEEE-754)", verdict, total, detail,
                 bounds="all 2^%d values of %s" % (w if w > 1 else 1, tname))
        rep.sample({"roundtrip": tname, "query": "exists v: unwrap<T>(wrap<T>(v)) != v", "verdict": verdict})


def scalar_guards(rep, ex, nat, open_f):
    """non-scalar where a scalar is required must be an error: symbolic class id, dims and data bytes"""
    kf = {e["id"]: e for e in open_f}
    for tname, code, w in SCALARS:
        mem = llir.Mem()
        M, N = z3.BitVecs("M N", 64)
        cls = z3.BitVec("cls", 32)
        data = mem.new("bytes", [z3.BitVec("b%d" % i, 8) for i in range(8)])
        mx = ("mx", llir.Mx(cls, M, N, data))
        dom = [z3.ULT(M, 2 ** 48), z3.ULT(N, 2 ** 48), z3.ULE(cls, 15)]   # MATLAB's documented maximum array size
        if "C18-scalar-guard-truncation" in kf:
            dom += [z3.ULT(M, 2 ** 31), z3.ULT(N, 2 ** 31)]
        verdict, total, nret = "confirmed", 0.0, 0
        for pc, o, _ in ex.run(U % code, [mx], dom, mem):
            if o[0] == "ERROR":
                continue
            nret += 1
            r, m, dt = solve(rep, "guard", pc + [z3.Or(M != 1, N != 1)]); total += dt
            if r == "sat":
                mv, nv, cv = (m.eval(x, model_completion=True).as_long() for x in (M, N, cls))
                out = nat.run("guard", tname, cv, hx(mv), hx(nv), "7")
                rep.extra["replayed"] = rep.extra.get("replayed", 0) + 1
                if out.startswith("OK"):
                    verdict = "counterexample"
                    rep.violation("unwrap<%s> accepts a %d x %d array (class %d) as a scalar" % (tname, mv, nv, cv),
                                  dict(kind="c18", args=["guard", tname, cv, hx(mv), hx(nv), "7"], expect="ERROR"))
                else:
                    rep.harness_error("guard counterexample M=%d N=%d does not reproduce natively (%s)" % (mv, nv, out)); verdict = "error"
                break
            if r == "unknown":
                verdict = "inconclusive(timeout)"
        if nret == 0:
            rep.harness_error("unwrap<%s> never returns on a symbolic array" % tname); verdict = "error"
        rep.cond("c18.scalar_guard_" + tname, "LLVM IR -> z3", verdict, total, "", bounds="class id 0..15, M,N < 2^48, 8 symbolic data bytes")
    for e in open_f:
        if e["id"] == "C18-scalar-guard-truncation":
            out = nat.run(*e["witness_args"])
            if out.startswith("OK"):
                rep.known(e)


def vectors(rep, ex, nat, B):
    for kind, mangled in VEC.items():
        mem = llir.Mem()
        n = z3.BitVec("n", 64)
        arr = z3.Array("vin", z3.BitVecSort(64), z3.BitVecSort(64))
        a_id = mem.new("cells", arr)
        vobj = mem.new("struct", {0: ("ptr", a_id, bv(0, 64)), 8: n})
        dom = [z3.ULE(n, B)]
        verdict, total, nret, detail = "confirmed", 0.0, 0, ""
        i = z3.BitVec("i", 64)
        for pc, o, m1 in ex.run(W % mangled, [("ptr", vobj, bv(0, 64))], dom, mem):
            if o[0] == "ERROR":
                verdict, detail = "counterexample", "wrap reports an error"
                continue
            mx = o[1][1]
            kindm, cells = m1.objs[mx.data]
            bad_wrap = z3.Or(mx.M != n, mx.N != 1, mx.classid != CLASS["DOUBLE"],
                             z3.And(z3.ULT(i, n), z3.Select(cells, i * 8) != z3.Select(arr, i * 8)))
            r, m, dt = solve(rep, "wrapvec", pc + [bad_wrap]); total += dt
            witness = m if r == "sat" else None
            where = "wrap"
            if r == "unknown":
                verdict = "inconclusive(timeout)"
            if witness is None:
                for pc2, o2, m2 in ex.run(U % mangled, [o[1]], pc, m1):
                    if o2[0] == "ERROR":
                        r, m, dt = solve(rep, "unwrapvec-err", pc2); total += dt
                        if r == "sat":
                            witness, where = m, "unwrap(error)"
                        continue
                    nret += 1
                    ptr, n_out = o2[1][1]
                    k2, out_cells = m2.objs[ptr[1]]
                    bad = z3.Or(n_out != n, z3.And(z3.ULT(i, n), z3.Select(out_cells, ptr[2] + i * 8) != z3.Select(arr, i * 8)))
                    r, m, dt = solve(rep, "unwrapvec", pc2 + [bad]); total += dt
                    if r == "sat":
                        witness, where = m, "unwrap"
                    if r == "unknown":
                        verdict = "inconclusive(timeout)"
            else:
                nret += 1
            if witness is not None:
                nv = witness.eval(n, model_completion=True).as_long()
                cellsv = [witness.eval(z3.Select(arr, bv(8 * k, 64)), model_completion=True).as_long() for k in range(nv)]
                out = nat.run(kind, nv, *[hx(c) for c in cellsv]).splitlines()
                rep.extra["replayed"] = rep.extra.get("replayed", 0) + 1
                exp_wrap = ("WRAP %d 1 6 " % nv + "".join("%016x " % c for c in cellsv)).strip()
                exp_ok = ("OK %d " % nv + "".join("%016x " % c for c in cellsv)).strip()
                got = [l.strip() for l in out]
                if got != [exp_wrap, exp_ok]:
                    verdict = "counterexample"
                    rep.violation("%s of length %d does not survive wrap/unwrap (%s): %s" % (kind, nv, where, got),
                                  dict(kind="c18", args=[kind, nv] + [hx(c) for c in cellsv], expect=[exp_wrap, exp_ok]))
                else:
                    rep.harness_error("%s counterexample n=%d does not reproduce natively" % (kind, nv)); verdict = "error"
                break
        if nret == 0 and verdict == "confirmed":
            rep.harness_error("no returning path for %s round trip" % kind); verdict = "error"
        rep.cond("c18.roundtrip_" + kind, "LLVM IR -> z3 (arrays of IEEE bit patterns)", verdict, total, detail,
                 bounds="length 0..%d, every element bit pattern" % B)
    # guards: a non-numeric (non-double) array where a vector is required must be an error
    for kind, mangled in VEC.items():
        mem = llir.Mem()
        M, N = z3.BitVecs("M N", 64)
        cls = z3.BitVec("cls", 32)
        data = mem.new("cells", z3.Array("din", z3.BitVecSort(64), z3.BitVecSort(64)))
        mx = ("mx", llir.Mx(cls, M, N, data))
        dom = [z3.ULE(M, B), z3.ULE(N, B), z3.ULE(cls, 15)]
        verdict, total = "confirmed", 0.0
        for pc, o, _ in ex.run(U % mangled, [mx], dom, mem):
            if o[0] == "ERROR":
                continue
            r, m, dt = solve(rep, "vguard", pc + [cls != CLASS["DOUBLE"]]); total += dt
            if r == "sat":
                mv, nv, cv = (m.eval(x, model_completion=True).as_long() for x in (M, N, cls))
                gmode = {"vector": "vguard", "point2": "p2guard", "point3": "p3guard"}[kind]
                out = nat.run(gmode, cv, hx(mv), hx(nv))
                rep.extra["replayed"] = rep.extra.get("replayed", 0) + 1
                if out.startswith("OK"):
                    verdict = "counterexample"
                    rep.violation("unwrap<%s> accepts a %dx%d array of class %d" % (kind, mv, nv, cv), dict(kind="c18", args=[gmode, cv, hx(mv), hx(nv)], expect="ERROR"))
                else:
                    rep.harness_error("vector guard counterexample does not reproduce"); verdict = "error"
                break
        rep.cond("c18.vector_guard_" + kind, "LLVM IR -> z3", verdict, total, "", bounds="class id 0..15, M,N <= %d" % B)


def matrices(rep, ex, nat, B):
    mem = llir.Mem()
    mm, nn = z3.BitVecs("mm nn", 64)
    arr = z3.Array("ain", z3.BitVecSort(64), z3.BitVecSort(64))
    a_id = mem.new("cells", arr)
    aobj = mem.new("struct", {0: ("ptr", a_id, bv(0, 64)), 8: mm, 16: nn})
    dom = [z3.ULE(mm, B), z3.ULE(nn, B)]
    i, j = z3.BitVecs("i j", 64)
    verdict, total, nret = "confirmed", 0.0, 0
    WM, UM = "_Z4wrapIN5gtsam6MatrixEEP11mxArray_tagRKT_", "_Z6unwrapIN5gtsam6MatrixEET_PK11mxArray_tag"
    for pc, o, m1 in ex.run(WM, [("ptr", aobj, bv(0, 64))], dom, mem):
        if o[0] == "ERROR":
            verdict = "counterexample"
            continue
        mx = o[1][1]
        _, cells = m1.objs[mx.data]
        inb = z3.And(z3.ULT(i, mm), z3.ULT(j, nn))
        bad_wrap = z3.Or(mx.M != mm, mx.N != nn, mx.classid != CLASS["DOUBLE"],
                         z3.And(inb, z3.Select(cells, (i + j * mm) * 8) != z3.Select(arr, (i + j * mm) * 8)))
        r, m, dt = solve(rep, "wrapmat", pc + [bad_wrap]); total += dt
        witness = m if r == "sat" else None
        if r == "unknown":
            verdict = "inconclusive(timeout)"
        if witness is None:
            ret = m1.new("struct", {})
            m1b = m1
            for pc2, o2, m2 in ex.run(UM, [("ptr", ret, bv(0, 64)), o[1]], pc, m1b):
                if o2[0] == "ERROR":
                    r, m, dt = solve(rep, "unwrapmat-err", pc2); total += dt
                    if r == "sat":
                        witness = m
                    continue
                nret += 1
                _, st = m2.objs[ret]
                ptr, mo, no = st[0], st[8], st[16]
                _, out_cells = m2.objs[ptr[1]]
                bad = z3.Or(mo != mm, no != nn, z3.And(inb, z3.Select(out_cells, (i + j * mm) * 8) != z3.Select(arr, (i + j * mm) * 8)))
                r, m, dt = solve(rep, "unwrapmat", pc2 + [bad]); total += dt
                if r == "sat":
                    witness = m
                if r == "unknown":
                    verdict = "inconclusive(timeout)"
        else:
            nret += 1
        if witness is not None:
            mv, nv = witness.eval(mm, model_completion=True).as_long(), witness.eval(nn, model_completion=True).as_long()
            cellsv = [witness.eval(z3.Select(arr, bv(8 * k, 64)), model_completion=True).as_long() for k in range(mv * nv)]
            out = [l.strip() for l in nat.run("matrix", mv, nv, *[hx(c) for c in cellsv]).splitlines()]
            rep.extra["replayed"] = rep.extra.get("replayed", 0) + 1
            exp = [("WRAP %d %d 6 " % (mv, nv) + "".join("%016x " % c for c in cellsv)).strip(),
                   ("OK %d %d " % (mv, nv) + "".join("%016x " % c for c in cellsv)).strip()]
            if out != exp:
                verdict = "counterexample"
                rep.violation("%dx%d matrix does not survive wrap/unwrap: %s" % (mv, nv, out), dict(kind="c18", args=["matrix", mv, nv] + [hx(c) for c in cellsv], expect=exp))
            else:
                rep.harness_error("matrix counterexample %dx%d does not reproduce natively" % (mv, nv)); verdict = "error"
            break
    if nret == 0 and verdict == "confirmed":
        rep.harness_error("no returning path for the matrix round trip"); verdict = "error"
    rep.cond("c18.roundtrip_matrix", "LLVM IR -> z3", verdict, total, "", bounds="0..%d rows x 0..%d columns, every element bit pattern; element (i,j) at i+j*rows" % (B, B))
    # guard
    mem = llir.Mem()
    M, N = z3.BitVecs("M N", 64)
    cls = z3.BitVec("cls", 32)
    data = mem.new("cells", z3.Array("din", z3.BitVecSort(64), z3.BitVecSort(64)))
    ret = mem.new("struct", {})
    verdict, total = "confirmed", 0.0
    for pc, o, _ in ex.run(UM, [("ptr", ret, bv(0, 64)), ("mx", llir.Mx(cls, M, N, data))], [z3.ULE(M, B), z3.ULE(N, B), z3.ULE(cls, 15)], mem):
        if o[0] == "ERROR":
            continue
        r, m, dt = solve(rep, "mguard", pc + [cls != CLASS["DOUBLE"]]); total += dt
        if r == "sat":
            mv, nv, cv = (m.eval(x, model_completion=True).as_long() for x in (M, N, cls))
            out = nat.run("mguard", cv, hx(mv), hx(nv))
            if out.startswith("OK"):
                verdict = "counterexample"
                rep.violation("unwrap<Matrix> accepts an array of class %d" % cv, dict(kind="c18", args=["mguard", cv, hx(mv), hx(nv)], expect="ERROR"))
            else:
                rep.harness_error("matrix guard counterexample does not reproduce"); verdict = "error"
            break
    rep.cond("c18.matrix_guard", "LLVM IR -> z3", verdict, total, "", bounds="class id 0..15, M,N <= %d" % B)


def run(tier):
    rep = Report("C18", tier, "model_checking")
    B = int(os.environ.get("VERIF_C18_B", 0)) or (5 if tier == "quick" else 10)
    rep.assumptions = ["MEX API modelled by contract-level stubs: mxCreate* return zero-filled arrays of the requested class and shape; mxGet* read the record; mxGetScalar converts element 0 by class; mexErrMsg* do not return",
                       "gtsam::Vector/Matrix/Point2/Point3 stand-ins: {pointer,size} structs with column-major operator()",
                       "clang-14 -O1 IR of the header is what is executed; little-endian LP64",
                       "array dimensions below MATLAB's documented maximum 2^48"]
    rep.outside = ["std::string conversions (libstdc++ internals)", "object handles: wrap_shared_ptr / unwrap_shared_ptr / create_object and their lifetime",
                   "vectors longer / matrices larger than the shape bound", "wrap_enum / unwrap_enum (mexCallMATLAB)"]
    rep.bounds = {"shape_bound": B, "scalars": "full width"}
    open_f, _ = load_known_findings("C18")
    work = None
    try:
        ir, work = llir.compile_ir()
        mod = llir.Module(ir)
        ex = llir.Exec(mod)
        nat = Native(work)
        if not nat.ok:
            rep.harness_error("native replay driver does not compile: " + nat.err)
            return rep.finish()
        # each group on its own: an IR construct outside the subset in one kernel must not hide a violation in another
        for group, args in ((scalar_roundtrips, (rep, ex, nat)), (scalar_guards, (rep, ex, nat, open_f)), (vectors, (rep, ex, nat, B)), (matrices, (rep, ex, nat, B))):
            try:
                group(*args)
            except llir.Unsupported as ex_:
                rep.harness_error("IR construct outside the interpreter's subset in %s: %s" % (group.__name__, ex_))
            except (IndexError, KeyError, AttributeError, TypeError, z3.Z3Exception) as ex_:
                rep.harness_error("interpreter failure in %s (memory access or value outside the model): %r" % (group.__name__, ex_))
        rep.functions.update(sorted(ex.funcs_run))
        rep.paths += ex.npaths
        rep.queries += ex.nqueries
        rep.extra["ir_functions_in_module"] = len(mod.funcs)
    except llir.Unsupported as ex_:
        rep.harness_error("IR construct outside the interpreter's subset: %s" % ex_)
    finally:
        if work:
            shutil.rmtree(work, ignore_errors=True)
    rep.extra["rule"] = "states = IR execution paths; transitions = SMT queries (path feasibility + property queries)"
    return rep.finish()


def replay(payload):
    work = None
    try:
        import tempfile
        work = tempfile.mkdtemp(prefix="verif_ll_")
        nat = Native(work)
        out = nat.run(*payload["args"])
        print(out)
        exp = payload.get("expect")
        got = [l.strip() for l in out.splitlines()]
        ok = (got == exp) if isinstance(exp, list) else (out.startswith(exp) if exp == "ERROR" else out == exp)
        if not ok:
            print("VIOLATION property=C18 replay=(replayed)")
            return 1
        return 0
    finally:
        if work:
            shutil.rmtree(work, ignore_errors=True)
