"""Shared pieces of the Engine-G checks (C01a, C07, C12): build encodings, validate the model against the
real parser, run a query with replay."""
import time

import z3

from vlib import gram


def load_grammar():
    import gtwrap.interface_parser as parser
    return gram.Grammar(parser.Module.rule), parser


def new_solver(timeout_s):
    s = z3.Solver()
    s.set("timeout", int(timeout_s * 1000))
    return s


def check(s, rep, name, bounds, expect_unsat=True):
    """Run one query; returns (verdict 'unsat'|'sat'|'unknown', model or None, seconds)."""
    t0 = time.time()
    r = str(s.check())
    dt = time.time() - t0
    rep.queries += 1
    rep.solver_s += 0  # accounted through rep.cond by the caller
    return r, (s.model() if r == "sat" else None), dt


def validate_model(rep, G, E, s_base, acc, n_each=12, label="peg", relayout=False):
    """Serval-style validation of the encoding: solver-diversified streams on the accept and on the
    reject side are rendered to text and run through the REAL parser; verdicts must agree.
    Returns number of cases validated; records a harness error on disagreement."""
    import pyparsing as pp
    import gtwrap.interface_parser as parser
    n = 0
    for side, cond in (("accept", acc), ("reject", gram.Not_(acc))):
        s_base.push()
        s_base.add(cond)
        if side == "reject":
            s_base.add(E.length >= 3)
        for i in range(n_each):
            if str(s_base.check()) != "sat":
                break
            m = s_base.model()
            text = E.render(m)
            try:
                parser.Module.parseString(text)
                real = "accept"
            except pp.ParseBaseException:
                real = "reject"
            except (ValueError, AssertionError):
                real = "accept"      # grammar accepted; a parse action's validation rejected (not modelled)
            n += 1
            if relayout and (real == "accept" or real != side):
                # every accepted stream, and every stream on which model and real parser disagree, is re-laid-out
                # on the real parser: a difference between layouts is a reproduced C12 violation whatever the model says
                if layout_differential(rep, G, E.tokens(m)):
                    s_base.pop()
                    return n
            if real != side:
                rep.harness_error("encoding disagrees with the real parser on %r: model=%s real=%s" % (text, side, real))
            elif i < 2:
                rep.sample({"validated_stream": text, "verdict": side})
            L = m.eval(E.length, model_completion=True).as_long()
            s_base.add(z3.Or([E.tok[k] != m.eval(E.tok[k], model_completion=True) for k in range(L)] + [E.length != L]))
            # push diversity: forbid the same first two tokens
            if L >= 2 and i % 2 == 1:
                s_base.add(z3.Or(E.tok[0] != m.eval(E.tok[0], model_completion=True), E.tok[1] != m.eval(E.tok[1], model_completion=True)))
        s_base.pop()
    rep.extra["model_validation_cases"] = rep.extra.get("model_validation_cases", 0) + n
    return n


def comment_anomalies(rep, G, pid):
    """Every comment exemplar must be exactly what each ignorable of the grammar skips.  An anomaly is
    replayed differentially on the real parser: the same declarations with and without the comment."""
    import gtwrap.interface_parser as parser
    from harness.project import project
    seen = set()
    for ig, text, what in G.ign_anomalies:
        if text in seen:
            continue
        seen.add(text)
        nl = "\n"
        with_c = "class A { }; " + text + nl + "class B { }; /* y */ class C { };"
        without = "class A { }; " + nl + "class B { }; /* y */ class C { };"
        ref = project(parser.Module.parseString(without))
        try:
            got = project(parser.Module.parseString(with_c))
            outcome = "same tree" if got == ref else "different tree (declarations lost)"
        except Exception as ex:
            got = None
            outcome = "rejected with " + type(ex).__name__
        rep.extra["replayed"] = rep.extra.get("replayed", 0) + 1
        if got != ref:
            rep.violation("comment %r is not skipped as a comment (%s: %s): %r -> %s" % (text, ig, what, with_c, outcome),
                          dict(kind="comment-diff", text=with_c, reference=without, property=pid))
        else:
            rep.harness_error("ignorable %s %s on %r but the differential replay shows no difference" % (ig, what, text))
    return len(seen)


# ------------------------------------------------------------------ concrete re-layout of solver-produced streams
def layouts_of(G, toks, default_merged=False):
    """Render one token list under several layouts inside the stated re-layout domain."""
    V = G.V
    n = len(toks)
    def sep_allowed_comment(k, glued=False):
        # k = boundary before token k (1..n-1).  A comment GLUED to a default atom belongs to the verbatim default text
        # (`5/*c*/`): only whitespace-led comments are placed between a default atom and its delimiter.
        if glued and k >= 2 and toks[k - 2] == "=" and toks[k - 1] != "{":
            return False
        return True
    def in_include(k):
        if toks[k - 1].startswith("#include") and len(toks[k - 1]) > 8:
            return False                     # corpus form: the whole directive is one token
        return (k >= 2 and toks[k - 2] == "#include") or (k >= 3 and toks[k - 3] == "#include")
    schemes = {"space": " ", "newline": "\n", "block": " /*c*/ ", "line": " // c\n", "glued": "", "gluedblock": "/*c*/", "doc": " /** { ; \" class **/ ",
               "punct": " /* a, b -> c < d ) ( = :: */ ", "punctline": " // a, b -> c < d ) ( = ::\n"}
    out = {}
    for name, sp in schemes.items():
        text = ""
        for k, t in enumerate(toks):
            if k > 0:
                if in_include(k):
                    s = ""
                elif name in ("glued",):
                    s = "" if G.glue_ok(toks[k - 1], t) else " "
                elif name == "gluedblock":
                    s = sp if sep_allowed_comment(k, glued=True) else " "
                elif name in ("block", "line", "doc", "punct", "punctline"):
                    s = sp if sep_allowed_comment(k) else " "
                else:
                    s = sp
                text += s
            text += t
        if name in ("block", "line", "doc", "punct", "punctline"):
            text = sp.lstrip(" ") + text + sp.rstrip(" ") if name not in ("line", "punctline") else "// c\n" + text + " // c"
        out[name] = text
    return out


def layout_differential(rep, G, toks, pid="C12", default_merged=False):
    """Real parser on every layout of one token list; a difference is a reproduced C12 violation."""
    import gtwrap.interface_parser as parser
    from harness.project import project
    outs = {}
    for name, text in layouts_of(G, toks).items():
        try:
            outs[name] = ("tree", project(parser.Module.parseString(text)))
        except Exception as ex:
            outs[name] = ("reject", type(ex).__name__ if not isinstance(ex, (ValueError, AssertionError)) else "validation")
    rep.extra["layout_renderings_replayed"] = rep.extra.get("layout_renderings_replayed", 0) + len(outs)
    base = outs["space"]
    for name, o in outs.items():
        if o != base:
            la = layouts_of(G, toks)
            rep.violation("layouts `space` and `%s` of the same tokens differ: %r -> %s, %r -> %s" % (
                name, la["space"], base[0] if base[0] == "tree" else base, la[name], o[0] if o[0] == "tree" else o),
                dict(kind="c12-layout", a=la["space"], b=la[name], property=pid))
            return True
    return False


# ------------------------------------------------------------------ the repository's own test inputs as validation corpus
def ref_tokenize(text):
    """reference lexer for the fixture files: comments stripped; identifiers / numbers / string literals /
    longest-match punctuation; `#include`, `unsigned char`, `enum class`, `enum struct` as single tokens"""
    import re
    text = re.sub(r"/\*.*?\*/", " ", text, flags=re.S)
    text = re.sub(r"//[^\n]*", " ", text)
    pat = re.compile(r'''\s*(?:(\#include\s*<[^>]*>)|(unsigned\s+char|enum\s+class|enum\s+struct)|("(?:[^"\\\\]|\\\\.)*"|'(?:[^'\\\\]|\\\\.)*')|([A-Za-z_]\w*)|(\d[\w.]*)|(::|<<=|>>=|<<|>>|==|!=|<=|>=|\+=|-=|\*=|/=|%=|\^=|&=|\|=|\(\)|\[\]|.))''', re.S)
    toks = []
    for m in pat.finditer(text):
        t = next(g for g in m.groups() if g is not None)
        if t.strip():
            toks.append(re.sub(r"\s+", " ", t.strip()))
    # tokens.py defines the optional `std::` in front of `pair` as ONE literal (stated re-layout domain)
    out, i = [], 0
    while i < len(toks):
        if toks[i] == "std" and toks[i + 1:i + 3] == ["::", "pair"]:
            out.append("std::")
            i += 2
            continue
        out.append(toks[i])
        i += 1
    return out


def corpus_declarations(repo):
    """statement-level declarations of tests/fixtures/*.i and of the constructed corpus harness/data/relayout.i,
    each as (tokens, context) with context 'top' or 'member'"""
    import glob
    import os
    out = []
    own = os.path.join(os.path.dirname(os.path.dirname(os.path.abspath(__file__))), "harness", "data", "relayout.i")
    for f in [own] + sorted(glob.glob(os.path.join(repo, "tests", "fixtures", "*.i"))):
        toks = ref_tokenize(open(f).read())
        # split into statements at ; (depth 0 inside the current braces), descending into namespace / class bodies
        def walk(ts, ctx):
            i, cur, depth = 0, [], 0
            while i < len(ts):
                t = ts[i]
                cur.append(t)
                if t in ("{",):
                    # find the matching brace
                    d, j = 1, i + 1
                    while j < len(ts) and d:
                        d += ts[j] == "{"
                        d -= ts[j] == "}"
                        j += 1
                    head = cur[:-1]
                    body = ts[i + 1:j - 1]
                    if "namespace" in head:
                        walk(body, "top")
                        cur = []
                        i = j
                        continue
                    if "class" in head and "=" not in head[-2:]:
                        walk(body, "member")
                        # the class itself with an emptied body
                        end = j
                        if end < len(ts) and ts[end] == ";":
                            end += 1
                        out.append((head + ["{", "}", ";"], ctx))
                        cur = []
                        i = end
                        continue
                    cur += ts[i + 1:j]
                    i = j
                    continue
                if t == ";" or (t.startswith("#include")):
                    out.append((cur, ctx))
                    cur = []
                i += 1
        walk(toks, "top")
    return out


def corpus_layout_check(rep, G, repo, limit=400):
    """Every fixture declaration, re-laid-out seven ways on the real parser (inside the stated re-layout domain)."""
    import gtwrap.interface_parser as parser
    n = 0
    seen = set()
    for toks, ctx in corpus_declarations(repo):
        if "=" in toks and any(t in toks for t in ("(", "{")) and toks.count("=") > 0:
            pass
        key = (tuple(toks), ctx)
        if key in seen or not toks:
            continue
        seen.add(key)
        # verbatim regions are outside the re-layout domain: keep a default expression as ONE token
        merged, i = [], 0
        hdr_end = -1
        if toks[0] == "template" and len(toks) > 1 and toks[1] == "<":
            d, j = 0, 1
            while j < len(toks):
                d += toks[j] == "<"
                d -= toks[j] == ">"
                if d == 0:
                    break
                j += 1
            hdr_end = j                       # `= {...}` inside the template header is structure, not a verbatim default
        while i < len(toks):
            if toks[i] == "=" and i > hdr_end and i + 1 < len(toks):
                j, depth = i + 1, 0
                while j < len(toks) and not (depth == 0 and toks[j] in (",", ";", ")")):
                    depth += toks[j] in ("(", "{", "[", "<")
                    depth -= toks[j] in (")", "}", "]", ">")
                    j += 1
                merged += ["=", " ".join(toks[i + 1:j])]
                i = j
                continue
            merged.append(toks[i])
            i += 1
        toks2 = (["class", "Ctx", "{"] + merged + ["}", ";"]) if ctx == "member" else merged
        h = hdr_end + 1 if hdr_end >= 0 else 0          # first token after an optional template header
        if ctx == "member" and len(merged) > h + 1 and merged[h] not in ("static", "enum", "enum class", "__") and merged[h + 1] in ("(", "()"):
            toks2[1] = merged[h]            # a (possibly templated) constructor: the class must carry its name
        parses = False
        for text in layouts_of(G, toks2, default_merged=True).values():
            try:
                parser.Module.parseString(text)
                parses = True
                break
            except Exception:
                pass
        if not parses:
            # the abstraction did not produce a stand-alone declaration in ANY layout: skipped, and said so in the evidence
            rep.extra["corpus_declarations_skipped"] = rep.extra.get("corpus_declarations_skipped", 0) + 1
            rep.extra.setdefault("corpus_skipped_examples", [])
            if len(rep.extra["corpus_skipped_examples"]) < 8:
                rep.extra["corpus_skipped_examples"].append(" ".join(toks2)[:120])
            continue
        n += 1
        if layout_differential(rep, G, toks2, default_merged=True):
            break
        if n >= limit:
            break
    rep.extra["corpus_declarations_relayouted"] = rep.extra.get("corpus_declarations_relayouted", 0) + n
    return n
