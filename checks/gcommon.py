"""Shared pieces of the Engine-G checks (C01a, C07, C12): build encodings, validate the model against the
real parser, run a query with replay."""
import time

import z3

from vlib import gram


def load_grammar():
    import gtwrap.interface_parser as parser
    return gram.Grammar(parser.Module.rule), parser


def new_solver(timeout_s):
    s = z3.Solver()
    s.set("timeout", int(timeout_s * 1000))
    return s


def check(s, rep, name, bounds, expect_unsat=True):
    """Run one query; returns (verdict 'unsat'|'sat'|'unknown', model or None, seconds)."""
    t0 = time.time()
    r = str(s.check())
    dt = time.time() - t0
    rep.queries += 1
    rep.solver_s += 0  # accounted through rep.cond by the caller
    return r, (s.model() if r == "sat" else None), dt


def validate_model(rep, G, E, s_base, acc, n_each=12, label="peg", relayout=False):
    """Serval-style validation of the encoding: solver-diversified streams on the accept and on the
    reject side are rendered to text and run through the REAL parser; verdicts must agree.
    Returns number of cases validated; records a harness error on disagreement."""
    import pyparsing as pp
    import gtwrap.interface_parser as parser
    n = 0
    for side, cond in (("accept", acc), ("reject", gram.Not_(acc))):
        s_base.push()
        s_base.add(cond)
        if side == "reject":
            s_base.add(E.length >= 3)
        for i in range(n_each):
            if str(s_base.check()) != "sat":
                break
            m = s_base.model()
            text = E.render(m)
            try:
                parser.Module.parseString(text)
                real = "accept"
            except pp.ParseBaseException:
                real = "reject"
            except (ValueError, AssertionError):
                real = "accept"      # grammar accepted; a parse action's validation rejected (not modelled)
            n += 1
            if relayout and real == "accept":
                if layout_differential(rep, G, E.tokens(m)):
                    s_base.pop()
                    return n
            if real != side:
                rep.harness_error("encoding disagrees with the real parser on %r: model=%s real=%s" % (text, side, real))
            elif i < 2:
                rep.sample({"validated_stream": text, "verdict": side})
            L = m.eval(E.length, model_completion=True).as_long()
            s_base.add(z3.Or([E.tok[k] != m.eval(E.tok[k], model_completion=True) for k in range(L)] + [E.length != L]))
            # push diversity: forbid the same first two tokens
            if L >= 2 and i % 2 == 1:
                s_base.add(z3.Or(E.tok[0] != m.eval(E.tok[0], model_completion=True), E.tok[1] != m.eval(E.tok[1], model_completion=True)))
        s_base.pop()
    rep.extra["model_validation_cases"] = rep.extra.get("model_validation_cases", 0) + n
    return n


def comment_anomalies(rep, G, pid):
    """Every comment exemplar must be exactly what each ignorable of the grammar skips.  An anomaly is
    replayed differentially on the real parser: the same declarations with and without the comment."""
    import gtwrap.interface_parser as parser
    from harness.project import project
    seen = set()
    for ig, text, what in G.ign_anomalies:
        if text in seen:
            continue
        seen.add(text)
        nl = "\n"
        with_c = "class A { }; " + text + nl + "class B { }; /* y */ class C { };"
        without = "class A { }; " + nl + "class B { }; /* y */ class C { };"
        ref = project(parser.Module.parseString(without))
        try:
            got = project(parser.Module.parseString(with_c))
            outcome = "same tree" if got == ref else "different tree (declarations lost)"
        except Exception as ex:
            got = None
            outcome = "rejected with " + type(ex).__name__
        rep.extra["replayed"] = rep.extra.get("replayed", 0) + 1
        if got != ref:
            rep.violation("comment %r is not skipped as a comment (%s: %s): %r -> %s" % (text, ig, what, with_c, outcome),
                          dict(kind="comment-diff", text=with_c, reference=without, property=pid))
        else:
            rep.harness_error("ignorable %s %s on %r but the differential replay shows no difference" % (ig, what, text))
    return len(seen)


# ------------------------------------------------------------------ concrete re-layout of solver-produced streams
def layouts_of(G, toks):
    """Render one token list under several layouts inside the stated re-layout domain."""
    V = G.V
    n = len(toks)
    def sep_allowed_comment(k):
        # k = boundary before token k (1..n-1).  No comment between a default atom and its delimiter; include glued.
        if k >= 2 and toks[k - 2] == "=" and toks[k - 1] != "{":
            return False
        return True
    def in_include(k):
        return (k >= 2 and toks[k - 2] == "#include") or (k >= 3 and toks[k - 3] == "#include")
    schemes = {"space": " ", "newline": "\n", "block": " /*c*/ ", "line": " // c\n", "glued": "", "gluedblock": "/*c*/", "doc": " /** { ; \" class **/ "}
    out = {}
    for name, sp in schemes.items():
        text = ""
        for k, t in enumerate(toks):
            if k > 0:
                if in_include(k):
                    s = ""
                elif name in ("glued",):
                    s = "" if G.glue_ok(toks[k - 1], t) else " "
                elif name == "gluedblock":
                    s = sp if sep_allowed_comment(k) else " "
                elif name in ("block", "line", "doc"):
                    s = sp if sep_allowed_comment(k) else " "
                else:
                    s = sp
                text += s
            text += t
        if name in ("block", "line", "doc"):
            text = sp.lstrip(" ") + text + sp.rstrip(" ") if name != "line" else "// c\n" + text + " // c"
        out[name] = text
    return out


def layout_differential(rep, G, toks, pid="C12"):
    """Real parser on every layout of one token list; a difference is a reproduced C12 violation."""
    import gtwrap.interface_parser as parser
    from harness.project import project
    outs = {}
    for name, text in layouts_of(G, toks).items():
        try:
            outs[name] = ("tree", project(parser.Module.parseString(text)))
        except Exception as ex:
            outs[name] = ("reject", type(ex).__name__ if not isinstance(ex, (ValueError, AssertionError)) else "validation")
    rep.extra["layout_renderings_replayed"] = rep.extra.get("layout_renderings_replayed", 0) + len(outs)
    base = outs["space"]
    for name, o in outs.items():
        if o != base:
            la = layouts_of(G, toks)
            rep.violation("layouts `space` and `%s` of the same tokens differ: %r -> %s, %r -> %s" % (
                name, la["space"], base[0] if base[0] == "tree" else base, la[name], o[0] if o[0] == "tree" else o),
                dict(kind="c12-layout", a=la["space"], b=la[name], property=pid))
            return True
    return False
