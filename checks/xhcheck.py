"""Generic driver for checks whose conditions are all CrossHair harness functions."""
import importlib
from vlib.common import Report, load_known_findings
from vlib import xh


def run(pid, level, tier, modules, functions=(), assumptions=(), outside=(), bounds=None, explanation=None):
    rep = Report(pid, tier, level)
    rep.functions.update(functions)
    rep.assumptions = list(assumptions)
    rep.outside = list(outside)
    rep.bounds = bounds or {}
    if explanation:
        rep.extra["explanation"] = explanation
    conds = []
    for m in modules:
        conds += importlib.import_module(m).conds(tier)
    open_f, _ = load_known_findings(pid)
    xh.run(rep, conds, open_f)
    rep.extra["rule"] = ("one evaluation = one CrossHair execution path (spelling-symbolic conditions) or one solver-enumerated "
                         "declaration shape run through the real pipeline (shape-bounded conditions); distinct = distinct path conditions")
    rep.extra["programs"] = rep.paths
    return rep.finish()
