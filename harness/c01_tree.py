"""C01 (b) — tree faithfulness: descriptor -> interface text -> REAL parser -> canonical projection == descriptor."""
import os

import gtwrap.interface_parser as parser

from harness.project import project
from harness.shapes import T, itext
from vlib.trace import reached, concrete, pick
from vlib import xh

LAST_FAILURE = None
THOROUGH = os.environ.get("VERIF_TIER", "quick") == "thorough"
BASIC = ("void", "bool", "unsigned char", "char", "int", "size_t", "double", "float")


def _fail(**kw):
    global LAST_FAILURE
    LAST_FAILURE = {k: repr(v)[:1800] for k, v in kw.items()}
    return False


# ---------------------------------------------------------------- expected projections (same tuple shapes as harness/project.py)
def x_typename(nss, name, args=()):
    return ("tn", tuple(nss), name, tuple(x_typename(a[1], a[2], a[3]) for a in args))


def x_type(ty):
    const, nss, name, args, suf = ty
    if args:
        return ("ttype", const, tuple(nss), name, tuple(x_type(a) for a in args), suf)
    return ("type", const, x_typename(nss, name), (not nss) and name in BASIC, suf)


def x_args(args):
    return tuple((x_type(t), n, d) for t, n, d in args)


def x_ret(r):
    if r[0] == "pair":
        return ("ret", x_type(r[1]), x_type(r[2]))
    return ("ret", x_type(r[1]), None)


def x_template(params):
    """params: [(name, [typename descriptors])]"""
    if not params:
        return None
    return ("template", tuple(p for p, _ in params), tuple(tuple(x_typename(a[1], a[2], a[3]) for a in insts) for _, insts in params))


def tmpl_text(params):
    if not params:
        return ""
    return "template<%s> " % ", ".join(p + (" = {%s}" % ", ".join(itext(a) for a in insts) if insts else "") for p, insts in params)


def ret_text(r):
    if r[0] == "pair":
        return "pair<%s, %s>" % (itext(r[1]), itext(r[2]))
    return itext(r[1])


def args_text(args):
    return ", ".join("%s %s%s" % (itext(t), n, (" = " + d) if d is not None else "") for t, n, d in args)


# ---------------------------------------------------------------- pools
TYPES = [
    T("int"), T("double", const=True), T("unsigned char"), T("Cls"), T("Cls", ns=("a",), suf="*"), T("Cls", ns=("a", "b"), const=True, suf="&"),
    T("Cls", suf="@"), T("vector", T("double"), ns=("std",)), T("vector", T("Cls", ns=("a",), suf="*"), ns=("std",), const=True, suf="&"),
    T("map", T("string"), T("vector", T("vector", T("Cls", const=True, suf="&"), ns=("std",)), ns=("std",)), ns=("std",)),
    T("Box", T("Cls", suf="@"), T("size_t")), T("Box", T("Box", T("Box", T("int")), suf="*"), ns=("a",), suf="*"), T("This"), T("T"), T("T", suf="&", const=True),
    T("size_t"), T("Value", ns=("T",)), T("Opt", T("Value", ns=("This",)), ns=("std",)),
    T("vector", T("double"), ns=("std",), suf="@"), T("map", T("int"), T("vector", T("Cls"), ns=("std",), suf="@"), ns=("std",), const=True, suf="@"),
]
NTY = len(TYPES)
DEFAULTS = [None, "3", "-1.5e3", '"a, b; c"', "{1, 2, 3}", "a::Cls(1, x)", "std::vector<int>()", "a::b::kConst", "(2 + 3)", "'}'", "Foo<A, B>::bar[3]", '"two  spaces   and\\ttab"']
ND = len(DEFAULTS)
RETS = [("one", T("void")), ("one", T("int")), ("one", T("Cls", ns=("a",), const=True, suf="&")), ("pair", T("int"), T("Cls", ns=("a",), suf="*")),
        ("one", T("vector", T("Cls"), ns=("std",))), ("pair", T("Cls", const=True), T("double", suf="&")), ("one", T("This")), ("one", T("T", suf="*"))]
NR = len(RETS)
NAMES = ["x", "y", "z"]
TPARAMS = [[], [("T", [])], [("T", [T("double"), T("Cls", ns=("a",))])], [("T", [T("Box", T("int"), ns=("a",))]), ("U", [])],
           [("T", [T("int")]), ("U", [T("Cls"), T("Cls", ns=("a", "b")), T("double")])]]
NTP = len(TPARAMS)


def parse_one(text, path=()):
    mod = parser.Module.parseString(text)
    p = project(mod)
    node = p
    for n in path:
        node = [c for c in node[3] if c[0] == "namespace" and c[1] == n][0]
    return p, node


def compare(got, want, text):
    if got != want:
        # find the first differing component for the report
        def diff(a, b, trail=""):
            if type(a) != type(b) or (isinstance(a, tuple) and len(a) != len(b)):
                return trail, a, b
            if isinstance(a, tuple):
                for i, (x, y) in enumerate(zip(a, b)):
                    d = diff(x, y, trail + "/%d" % i)
                    if d:
                        return d
                return None
            return None if a == b else (trail, a, b)
        return _fail(text=text, first_difference=diff(got, want), got=got, want=want)
    return True


# ---------------------------------------------------------------- conditions
def check_function(t0, t1, d0, r, tp, nargs, nsdepth):
    path = ("n1", "n2", "n3")[:nsdepth]
    tys = [TYPES[t0], TYPES[t1], TYPES[(t0 + t1 + 1) % NTY]][:nargs]
    dfl = [None, None, None]
    if nargs:
        dfl[nargs - 1] = DEFAULTS[d0]
    args = [(tys[i], NAMES[i], dfl[i]) for i in range(nargs)]
    ret = RETS[r]
    params = TPARAMS[tp]
    text = "".join("namespace %s { " % n for n in path) + "%s%s fun(%s);" % (tmpl_text(params), ret_text(ret), args_text(args)) + " }" * nsdepth
    _p, node = parse_one(text, path)
    want = ("function", "fun", path[-1] if path else "", x_template(params), x_ret(ret), x_args(args))
    got = node[3][0] if node[0] == "namespace" else None
    return compare(got, want, text)


def c01_function(t0: int, t1: int, d0: int, r: int, tp: int, nargs: int, nsdepth: int) -> bool:
    """
    Free functions: every argument type / default / return / template-header shape, namespace depth 0-3.
    pre: 0 <= t0 < NTY and 0 <= t1 < NTY and 0 <= d0 < ND and 0 <= r < NR and 0 <= tp < NTP and 0 <= nargs <= 3 and 0 <= nsdepth <= 3
    post: _
    """
    t0, d0 = pick(t0, 0, NTY), pick(d0, 0, ND)
    if THOROUGH:
        t1 = pick(t1, 0, NTY)
        r, tp, nargs, nsdepth = (t0 + d0 + t1) % NR, (t0 + 2 * d0 + t1) % NTP, 1 + (t0 + d0 + t1) % 3, (t0 + d0) % 4
    else:
        t1, r, tp, nargs, nsdepth = (t0 * 5 + d0) % NTY, (t0 + d0) % NR, (t0 + 2 * d0) % NTP, 1 + (t0 + d0) % 3, (t0 + d0) % 4
    with concrete():
        ok = check_function(t0, t1, d0, r, tp, nargs, nsdepth)
    reached({"type": itext(TYPES[t0]), "default": DEFAULTS[d0]} if (not ok or t0 == 9) else None)
    return ok


MEMBER_KINDS = ["ctor", "method", "method_const", "static", "property", "property_default", "operator", "operator_unary", "operator_call", "dunder", "enum", "tmpl_method", "tmpl_ctor", "tmpl_static"]
NMK = len(MEMBER_KINDS)
BASES = [None, ("name", T("Base")), ("name", T("Base", ns=("a", "b"))), ("ttype", T("Base", T("T"), ns=("a",))), ("ttype", T("Base", T("int"), T("vector", T("Cls"), ns=("std",))))]
NB = len(BASES)


def member(kind, t0, d0, r):
    """(text, slot, expected tuple) for one class member"""
    ty = TYPES[t0]
    args = [(ty, "x", None), (TYPES[(t0 + 3) % NTY], "y", DEFAULTS[d0])]
    ret = RETS[r]
    mp = [("M", [T("double"), T("Cls", ns=("a",))])]
    if kind == "ctor":
        return "Cls(%s);" % args_text(args), 6, ("ctor", "Cls", None, x_args(args), "Cls")
    if kind == "tmpl_ctor":
        return "%sCls(%s);" % (tmpl_text(mp), args_text(args)), 6, ("ctor", "Cls", x_template(mp), x_args(args), "Cls")
    if kind in ("method", "method_const"):
        c = kind == "method_const"
        return "%s doIt(%s)%s;" % (ret_text(ret), args_text(args), " const" if c else ""), 7, ("method", "doIt", None, x_ret(ret), x_args(args), c, "Cls")
    if kind == "tmpl_method":
        return "%s%s doIt(%s) const;" % (tmpl_text(mp), ret_text(ret), args_text(args)), 7, ("method", "doIt", x_template(mp), x_ret(ret), x_args(args), True, "Cls")
    if kind == "static":
        return "static %s Make(%s);" % (ret_text(ret), args_text(args)), 8, ("static", "Make", None, x_ret(ret), x_args(args), "Cls")
    if kind == "tmpl_static":
        return "%sstatic %s Make(%s);" % (tmpl_text(mp), ret_text(ret), args_text(args)), 8, ("static", "Make", x_template(mp), x_ret(ret), x_args(args), "Cls")
    if kind == "property":
        return "%s prop;" % itext(ty), 10, ("prop", x_type(ty), "prop", None, "Cls")
    if kind == "property_default":
        return "%s prop = %s;" % (itext(ty), DEFAULTS[d0] or "0"), 10, ("prop", x_type(ty), "prop", DEFAULTS[d0] or "0", "Cls")
    if kind == "operator":
        o = ["+", "-", "*", "/", "==", "<", "<=", "+=", "<<", "^", "|", "%", ">>=", "!="][(t0 + d0) % 14]
        a = [(T("Cls", const=True, suf="&"), "o", None)]
        rr = ("one", T("Cls"))
        return "Cls operator%s(%s) const;" % (o, args_text(a)), 11, ("op", "operator", o, x_ret(rr), x_args(a), True, False)
    if kind == "operator_unary":
        o = "+-"[t0 % 2]
        rr = ("one", T("Cls"))
        return "Cls operator%s() const;" % o, 11, ("op", "operator", o, x_ret(rr), (), True, True)
    if kind == "operator_call":
        o = ["()", "[]"][t0 % 2]
        a = [(ty, "i", None)]
        return "%s operator%s(%s) const;" % (ret_text(ret), o, args_text(a)), 11, ("op", "operator", o, x_ret(ret), x_args(a), True, False)
    if kind == "dunder":
        nm = ["len", "iter", "contains"][t0 % 3]
        a = [(ty, "key", None)] if nm == "contains" else []
        return "__%s__(%s);" % (nm, args_text(a)), 9, ("dunder", nm, x_args(a))
    if kind == "enum":
        head = ["enum", "enum class", "enum struct"][t0 % 3]
        vals = ["A", "B", "C"][:1 + d0 % 3]
        return "%s Kind { %s };" % (head, ", ".join(vals)), 12, ("enum", "Kind", tuple(vals))
    raise ValueError(kind)


def check_class(k1, k2, t0, d0, r, base, virt, tp, nsdepth):
    path = ("n1", "n2")[:nsdepth]
    m1, m2 = member(MEMBER_KINDS[k1], t0, d0, r), member(MEMBER_KINDS[k2], (t0 + 5) % NTY, (d0 + 3) % ND, (r + 2) % NR)
    params = TPARAMS[tp]
    b = BASES[base]
    btxt = (" : " + itext(b[1])) if b else ""
    text = "".join("namespace %s { " % n for n in path) + "class Before { }; %s%sclass Cls%s { %s %s }; class After { };" % (
        tmpl_text(params), "virtual " if virt else "", btxt, m1[0], m2[0]) + " }" * nsdepth
    _p, node = parse_one(text, path)
    slots = {i: [] for i in range(6, 13)}
    slots[m1[1]].append(m1[2])
    slots[m2[1]].append(m2[2])
    if b is None:
        xb = None
    elif b[0] == "name":
        xb = x_typename(b[1][1], b[1][2])
    else:
        xb = x_type(b[1])
    parent = path[-1] if path else ""
    want = ("class", "Cls", parent, x_template(params), bool(virt), xb) + tuple(tuple(slots[i]) for i in range(6, 13))
    empty = lambda n: ("class", n, parent, None, False, None, (), (), (), (), (), (), ())
    got = node[3]
    return compare(got, (empty("Before"), want, empty("After")), text)


def c01_class(k1: int, k2: int, t0: int, d0: int, r: int, base: int, virt: int, tp: int, nsdepth: int) -> bool:
    """
    Classes: every pair of member kinds (order preserved within a kind), member types / defaults / returns, base
    (plain, namespaced, templated), virtual, class template header, namespace depth 0-2, between two sibling classes.
    pre: 0 <= k1 < NMK and 0 <= k2 < NMK and 0 <= t0 < NTY and 0 <= d0 < ND and 0 <= r < NR and 0 <= base < NB and 0 <= virt <= 1 and 0 <= tp < NTP and 0 <= nsdepth <= 2
    post: _
    """
    k1, k2 = pick(k1, 0, NMK), pick(k2, 0, NMK)
    if THOROUGH:
        t0 = pick(t0, 0, NTY)
        d0, base = (k1 + 2 * k2 + t0) % ND, (k1 + k2 + t0) % NB
    else:
        t0, d0, base = (k1 * 3 + k2) % NTY, (k1 + 2 * k2) % ND, (k1 + k2) % NB
    r, virt, tp, nsdepth = (t0 + k1) % NR, (k1 + k2) % 2, (k1 + d0) % NTP, (k2 + t0) % 3
    with concrete():
        ok = check_class(k1, k2, t0, d0, r, base, virt, tp, nsdepth)
    reached({"members": [MEMBER_KINDS[k1], MEMBER_KINDS[k2]], "base": base} if (not ok or (k1 == 6 and k2 == 4)) else None)
    return ok


TOP_KINDS = ["class", "fwd", "fwd_virtual_base", "include", "typedef", "function", "enum", "variable", "variable_default", "namespace", "fwd_ns", "fwd_of_class", "fwd_ns_of_class"]
NTK = len(TOP_KINDS)


def top_decl(kind, i, t0, d0):
    nm = "D%d" % i
    ty = TYPES[t0]
    if kind == "class":
        return "class %s { };" % nm, lambda parent: ("class", nm, parent, None, False, None, (), (), (), (), (), (), ())
    if kind == "fwd":
        return "class %s;" % nm, lambda parent: ("forward", x_typename((), nm), None, False, parent)
    if kind == "fwd_of_class":          # forward declaration whose name is also defined as a class in the same scope (D0 / D1 / D2)
        other = "D%d" % ((i + 1) % 3)
        return "class %s;" % other, lambda parent: ("forward", x_typename((), other), None, False, parent)
    if kind == "fwd_ns_of_class":       # a qualified forward declaration sharing only its last component with a sibling class
        other = "D%d" % ((i + 2) % 3)
        return "class lib::%s;" % other, lambda parent: ("forward", x_typename(("lib",), other), None, False, parent)
    if kind == "fwd_ns":
        return "class q::r::%s;" % nm, lambda parent: ("forward", x_typename(("q", "r"), nm), None, False, parent)
    if kind == "fwd_virtual_base":
        return "virtual class %s : a::b::Base;" % nm, lambda parent: ("forward", x_typename((), nm), x_typename(("a", "b"), "Base"), True, parent)
    if kind == "include":
        return "#include <dir/%s.h>" % nm, lambda parent: ("include", "dir/%s.h" % nm)
    if kind == "typedef":
        tt = T("Tmpl", ty, T("int"), ns=("a",))
        return "typedef %s %s;" % (itext(tt), nm), lambda parent: ("typedef", x_typename(("a",), "Tmpl", (ty, T("int"))), nm, parent)
    if kind == "function":
        return "void %s(%s x);" % (nm, itext(ty)), lambda parent: ("function", nm, parent, None, x_ret(("one", T("void"))), x_args([(ty, "x", None)]))
    if kind == "enum":
        return "enum %s { P, Q };" % nm, lambda parent: ("enum", nm, ("P", "Q"))
    if kind == "variable":
        return "%s %s;" % (itext(ty), nm), lambda parent: ("variable", x_type(ty), nm, None, parent)
    if kind == "variable_default":
        return "const double %s = %s;" % (nm, DEFAULTS[d0] or "1"), lambda parent: ("variable", x_type(T("double", const=True)), nm, DEFAULTS[d0] or "1", parent)
    if kind == "namespace":
        return "namespace %s { class In%d { }; }" % (nm, i), lambda parent: ("namespace", nm, parent, (("class", "In%d" % i, nm, None, False, None, (), (), (), (), (), (), ()),))
    raise ValueError(kind)


def check_toplevel(ka, kb, kc, t0, d0, nsdepth):
    path = ("n1", "n2", "n3")[:nsdepth]
    decls = [top_decl(TOP_KINDS[k], i, (t0 + 4 * i) % NTY, (d0 + i) % ND) for i, k in enumerate((ka, kb, kc))]
    text = "".join("namespace %s {\n" % n for n in path) + "\n".join(d[0] for d in decls) + "\n" + "}\n" * nsdepth
    p, node = parse_one(text, path)
    parent = path[-1] if path else ""
    want = tuple(d[1](parent) for d in decls)
    ok = compare(node[3], want, text)
    if ok and path:
        # nothing added / re-attributed in the enclosing scopes either
        chain = p
        for depth, n in enumerate(path):
            if len(chain[3]) != 1 or chain[3][0][0] != "namespace" or chain[3][0][1] != n or chain[3][0][2] != (path[depth - 1] if depth else ""):
                return _fail(text=text, problem="enclosing namespaces do not mirror the source", got=p)
            chain = chain[3][0]
    if ok:
        # the namespace path every node reports (not only its parent link) is the path it is written in
        def walk(ns, trail):
            for e in ns.content:
                here = [""] + list(trail)
                if isinstance(e, parser.Namespace):
                    if e.full_namespaces() != here + [e.name]:
                        return (e.name, e.full_namespaces(), here + [e.name])
                    bad = walk(e, trail + (e.name,))
                    if bad:
                        return bad
                elif hasattr(e, "namespaces") and callable(e.namespaces):
                    if list(e.namespaces()) != here:
                        return (getattr(e, "name", type(e).__name__), list(e.namespaces()), here)
            return None
        bad = walk(parser.Module.parseString(text), ())
        if bad:
            return _fail(text=text, problem="%r reports the namespace path %r, it is declared in %r" % bad)
    return ok


def c01_toplevel(ka: int, kb: int, kc: int, t0: int, d0: int, nsdepth: int) -> bool:
    """
    Three sibling declarations of every kind (class, forward declaration incl. virtual/base/namespaced, include,
    typedef, function, enum, variable with/without initialiser, namespace) at namespace depth 0-3: each appears
    once, in source order, in its scope, with its parent link.
    pre: 0 <= ka < NTK and 0 <= kb < NTK and 0 <= kc < NTK and 0 <= t0 < NTY and 0 <= d0 < ND and 0 <= nsdepth <= 3
    post: _
    """
    ka, kb = pick(ka, 0, NTK), pick(kb, 0, NTK)
    if THOROUGH:
        kc, nsdepth = pick(kc, 0, NTK), pick(nsdepth, 0, 4)
    else:
        kc, nsdepth = (ka * 3 + kb + 1) % NTK, (ka + kb) % 4
    t0, d0 = (ka + 2 * kb) % NTY, (ka + kb) % ND
    with concrete():
        ok = check_toplevel(ka, kb, kc, t0, d0, nsdepth)
    reached({"kinds": [TOP_KINDS[k] for k in (ka, kb, kc)], "nsdepth": nsdepth} if (not ok or (ka == 2 and kb == 9)) else None)
    return ok


# ---------------------------------------------------------------- every type expression of a small algebra, in every type position
A_NAMES = ["int", "Cls", "This", "unsigned char"]
A_NS = [(), ("a",), ("a", "b"), ("T",)]
A_QUAL = [(False, ""), (True, ""), (False, "*"), (False, "@"), (False, "&"), (True, "&"), (True, "*"), (True, "@")]
R_NAMES2 = ["vector", "Box"]
R_NS2 = [("std",), (), ("a", "b")]
NA_LEAF = len(A_NAMES) * len(A_NS) * len(A_QUAL)          # 128
NA_ROOT = len(R_NAMES2) * len(R_NS2) * len(A_QUAL)        # 48
A_BREPS = [0, 9, 42, 75, 100, 127]
TYPE_POSITIONS = [
    ("argument", "void f(%s a, int z);", lambda m: m.content[0].args.list()[0].ctype),
    ("defaulted argument", "void f(int z, %s a = dflt(1, 2));", lambda m: m.content[0].args.list()[1].ctype),
    ("return type", "%s f(int z);", lambda m: m.content[0].return_type.type1),
    ("pair member", "pair<%s, double> f();", lambda m: m.content[0].return_type.type1),
    ("method argument", "class C { void g(double z, %s a) const; };", lambda m: m.content[0].methods[0].args.list()[1].ctype),
    ("method return", "class C { %s g() const; };", lambda m: m.content[0].methods[0].return_type.type1),
    ("static return", "class C { static %s g(); };", lambda m: m.content[0].static_methods[0].return_type.type1),
    ("constructor argument", "class C { C(%s a); };", lambda m: m.content[0].ctors[0].args.list()[0].ctype),
    ("property", "class C { %s p; };", lambda m: m.content[0].properties[0].ctype),
    ("variable", "%s v;", lambda m: m.content[0].ctype),
    ("template argument of an argument", "void f(std::map<int, %s> a);", lambda m: m.content[0].args.list()[0].ctype.template_params[1]),
]
NTPOS = len(TYPE_POSITIONS)


def a_leaf(code):
    n, r = divmod(code, len(A_NS) * len(A_QUAL))
    ns, q = divmod(r, len(A_QUAL))
    const, suf = A_QUAL[q]
    return T(A_NAMES[n], ns=A_NS[ns], const=const, suf=suf)


def a_root(code, args):
    n, r = divmod(code, len(R_NS2) * len(A_QUAL))
    ns, q = divmod(r, len(A_QUAL))
    const, suf = A_QUAL[q]
    return T(R_NAMES2[n], *args, ns=R_NS2[ns], const=const, suf=suf)


def a_allowed(ty, position):
    """inside the dialect: basic type names carry no namespace; a pair member is a plain (untemplated) type"""
    const, nss, name, args, suf = ty
    if name in ("int", "unsigned char") and nss:
        return False
    if position == "pair member" and args:
        return False
    return all(a_allowed(a, "") for a in args)


def _check_type_everywhere(ty, npos=NTPOS, first=0):
    """in `npos` of the type positions, starting at position `first` and stepping so that they spread over the list"""
    from harness.project import p_type
    want = x_type(ty)
    step = max(1, NTPOS // npos)
    for i in range(npos):
        label, tpl, getter = TYPE_POSITIONS[(first + i * step) % NTPOS]
        if not a_allowed(ty, label):
            continue
        text = tpl % itext(ty)
        try:
            got = p_type(getter(parser.Module.parseString(text)))
        except Exception as ex:
            got = "raised %s" % type(ex).__name__
        if got != want:
            return _fail(position=label, text=text, got=got, want=want)
    return True


def c01_all_types(kind: int, r: int, a: int, b: int) -> bool:
    """
    Every type expression of a small algebra — leaves {int, Cls, This, unsigned char} x namespaces {-, a::, a::b::, T::} x
    8 const / * / @ / & combinations; templated roots {vector, Box} x 3 namespaces x the same 8 qualifier combinations with one
    or two leaves as arguments — written in 11 type positions (argument, defaulted argument, return, pair member, method /
    static / constructor, property, variable, nested template argument): the tree holds exactly that type.
    pre: 0 <= kind <= 2 and 0 <= r < NA_ROOT and 0 <= a < NA_LEAF and 0 <= b < len(A_BREPS)
    pre: kind == 0 or (kind == 1 and (THOROUGH or r % 4 == a % 4)) or (kind == 2 and r % (2 if THOROUGH else 16) == a % (2 if THOROUGH else 16))
    post: _
    """
    kind, a = pick(kind, 0, 3), pick(a, 0, NA_LEAF)
    if kind == 0:
        with concrete():
            ok = _check_type_everywhere(a_leaf(a))
    else:
        r = pick(r, 0, NA_ROOT)
        if kind == 1:
            with concrete():
                ok = _check_type_everywhere(a_root(r, [a_leaf(a)]), NTPOS if THOROUGH else 3, a + r)
        else:
            b = pick(b, 0, len(A_BREPS)) if THOROUGH else (a + r) % len(A_BREPS)
            with concrete():
                ok = _check_type_everywhere(a_root(r, [a_leaf(a), a_leaf(A_BREPS[b])]), 4 if THOROUGH else 3, a + r + b)
    reached({"kind": kind, "root": r, "a": a} if not ok else None)
    return ok


def a_twin(t, how):
    """a look-alike of type t: same shape, the innermost (first) leaf changed — its qualifier (how=0), its name (1) or its namespace (2)"""
    const, nss, name, args, suf = t
    if args:
        return (const, nss, name, (a_twin(args[0], how),) + tuple(args[1:]), suf)
    if how == 0:
        return (not const, nss, name, args, {"": "*", "*": "", "&": "", "@": "*"}[suf])
    if how == 1:
        return (const, nss, {"Cls": "Cls3", "int": "double", "This": "Cls", "unsigned char": "char"}[name], args, suf)
    return (const, (("zz",) + tuple(nss)) if name not in ("int", "unsigned char") else nss, name if name not in ("int", "unsigned char") else "Cls", args, suf)


def c01_type_twins(r1: int, r2: int, a: int, how: int) -> bool:
    """
    Two type expressions of ONE file that differ only deep inside (`std::vector<Box<Cls*>>` next to `std::vector<Box<Cls>>`;
    another leaf name; another leaf namespace), as arguments of one function, as return type and argument, in a class and in
    the next declaration: each node of the tree holds its own type — none is replaced by its look-alike parsed earlier.
    pre: 0 <= r1 < NA_ROOT and 0 <= r2 < NA_ROOT and 0 <= a < NA_LEAF and 0 <= how <= 2
    pre: r1 % (4 if THOROUGH else 16) == a % (4 if THOROUGH else 16) and (THOROUGH or r2 == (r1 * 7 + a) % NA_ROOT)
    post: _
    """
    r1, a, how = pick(r1, 0, NA_ROOT), pick(a, 0, NA_LEAF), pick(how, 0, 3)
    r2 = pick(r2, 0, NA_ROOT) if THOROUGH else (r1 * 7 + a) % NA_ROOT
    with concrete():
        from harness.project import p_type
        leaf = a_leaf(a)
        ok = True
        if a_allowed(leaf, ""):
            t1 = a_root(r1, [a_root(r2, [leaf]), a_leaf((a + 9) % NA_LEAF)][:1 + a % 2]) if a_allowed(a_leaf((a + 9) % NA_LEAF), "") else a_root(r1, [a_root(r2, [leaf])])
            t2 = a_twin(t1, how)
            text = ("void f(%s a, %s b);\nclass C { %s g(%s c) const; %s p; };\n%s v;\n" % (itext(t1), itext(t2), itext(t2), itext(t1), itext(t2), itext(t1)))
            try:
                m = parser.Module.parseString(text)
                got = [p_type(m.content[0].args.list()[0].ctype), p_type(m.content[0].args.list()[1].ctype), p_type(m.content[1].methods[0].return_type.type1),
                       p_type(m.content[1].methods[0].args.list()[0].ctype), p_type(m.content[1].properties[0].ctype), p_type(m.content[2].ctype)]
            except Exception as ex:
                got = ["raised %s" % type(ex).__name__]
            want = [x_type(t) for t in (t1, t2, t2, t1, t2, t1)]
            if got != want:
                i = next((k for k, (g, w) in enumerate(zip(got, want)) if g != w), 0)
                ok = _fail(text=text, position=i, got=got[i] if i < len(got) else got, want=want[i])
    reached({"r1": r1, "r2": r2, "a": a, "how": how} if not ok else None)
    return ok


# ---------------------------------------------------------------- identifiers built from reserved spellings
def _keywords():
    """alphabetic words the LIVE grammar matches as Keyword / Literal anywhere (read from the object graph)"""
    import pyparsing as pp
    seen, words, todo = set(), set(), [parser.Module.rule]
    while todo:
        e = todo.pop()
        if id(e) in seen:
            continue
        seen.add(id(e))
        if isinstance(e, (pp.Keyword, pp.Literal)) and getattr(e, "match", None):
            for w in str(e.match).split():
                if w.replace("_", "").isalpha():
                    words.add(w)
        todo += list(getattr(e, "exprs", []) or [])
        if getattr(e, "expr", None) is not None:
            todo.append(e.expr)
    return sorted(words | {"struct", "unsigned", "string"})


with concrete():
    KEYWORDS = _keywords()
FORMS = [lambda k: k + "x", lambda k: k + "_", lambda k: k + "2", lambda k: "x" + k, lambda k: "_" + k, lambda k: k + k,
         lambda k: k + "ification", lambda k: k[0].upper() + k[1:] + "s"]
NEUTRAL = "Zq9"
# one declaration per identifier position of the dialect; NEUTRAL marks the position
POSITIONS = [
    ("enum name", "enum Zq9 { A, B };"),
    ("scoped enum name", "enum class Zq9 { A, B };"),
    ("enumerator", "enum E { Zq9, B };"),
    ("class-scoped enum name", "class C { C(); enum Zq9 { A }; };"),
    ("class name", "class Zq9 { Zq9(); };"),
    ("forward declaration", "class Zq9;"),
    ("base class", "class C : Zq9 { C(); };"),
    ("method name", "class C { double Zq9(int a) const; };"),
    ("static method name", "class C { static double Zq9(int a); };"),
    ("property name", "class C { double Zq9; };"),
    ("argument name", "void f(double Zq9, int b);"),
    ("second argument name", "void f(double a, int Zq9 = 3);"),
    ("function name", "double Zq9(int a);"),
    ("variable name", "const double Zq9 = 3;"),
    ("namespace name", "namespace Zq9 { class C { C(); }; }"),
    ("argument type", "void f(const Zq9& a);"),
    ("type namespace", "void f(Zq9::Inner a);"),
    ("scoped type leaf", "void f(ns::Zq9* a);"),
    ("return type", "Zq9 f();"),
    ("template argument", "void f(std::vector<Zq9> a);"),
    ("template parameter", "template<Zq9 = {double}> void f(Zq9 a);"),
    ("template instantiation", "template<T = {Zq9, ns::Zq9}> void f(T a);"),
    ("typedef name", "typedef ns::Box<double> Zq9;"),
    ("typedef target", "typedef ns::Zq9<double> Name;"),
    ("pair member", "pair<Zq9, double> f();"),
]
NPOS, NKW, NFORM = len(POSITIONS), len(KEYWORDS), len(FORMS)


def c01_keyword_identifiers(pos: int, kw: int, form: int) -> bool:
    """
    An identifier that merely starts or ends with a reserved spelling of the live grammar (`classification`,
    `enumx`, `xconst`, `staticstatic`, ...) is an ordinary identifier in every identifier position: the tree equals
    the tree of the same declaration with a neutral name, with the name replaced.
    pre: 0 <= pos < NPOS and 0 <= kw < NKW and 0 <= form < NFORM
    post: _
    """
    pos, kw = pick(pos, 0, NPOS), pick(kw, 0, NKW)
    forms = range(NFORM) if True else [form]
    ok = True
    with concrete():
        label, tpl = POSITIONS[pos]
        base = repr(project(parser.Module.parseString(tpl)))
        for f in forms:
            name = FORMS[f](KEYWORDS[kw])
            text = tpl.replace(NEUTRAL, name)
            try:
                got = repr(project(parser.Module.parseString(text)))
            except Exception as ex:
                got = "raised %s" % type(ex).__name__
            if got != base.replace(NEUTRAL, name):
                ok = _fail(position=label, text=text, got=got, want=base.replace(NEUTRAL, name))
                break
    reached({"position": POSITIONS[pos][0], "keyword": KEYWORDS[kw]} if (not ok or (pos == 0 and kw == 3)) else None)
    return ok


def conds(tier):
    q = tier == "quick"
    t = (lambda x, y: x) if q else (lambda x, y: y)
    M = "harness.c01_tree"
    sb = "shape-bounded"
    return [
        xh.Cond(M, "c01_function", t(300, 3000), kind=sb, examples=["t0=9, t1=11, d0=3, r=3, tp=4, nargs=3, nsdepth=3", "t0=16, t1=0, d0=10, r=6, tp=2, nargs=1, nsdepth=0"],
                bounds="%d type expressions (const, */@/&, namespaces to depth 2, template arguments to depth 3 incl. glued >>) x %d default shapes%s" % (
                    NTY, ND, " x %d second types (return / template header / arity / depth derived)" % NTY if not q else " (other choices derived)")),
        xh.Cond(M, "c01_class", t(300, 3000), kind=sb, examples=["k1=6, k2=4, t0=3, d0=2, r=1, base=3, virt=1, tp=2, nsdepth=1", "k1=11, k2=13, t0=9, d0=5, r=7, base=4, virt=0, tp=4, nsdepth=2"],
                bounds="%d x %d member-kind pairs%s" % (NMK, NMK, " x %d member types (defaults / bases derived)" % NTY if not q else " (types / defaults / bases derived)")),
        xh.Cond(M, "c01_all_types", t(600, 2400), kind=sb, examples=["kind=0, r=0, a=43, b=0", "kind=1, r=11, a=35, b=0", "kind=2, r=47, a=127, b=3", "kind=1, r=3, a=3, b=0"],
                bounds="every type expression of a small algebra (128 leaves in all 11 type positions; 48 templated roots with 1-2 leaf arguments: %s)" % ("one argument: all roots x leaves x 11 positions; two arguments: every second (root, leaf) pair x 6 second arguments x 4 positions" if not q else "each root with every fourth (one argument) / sixteenth (two arguments) leaf, second argument derived, 3 of the 11 positions each, rotating")),
        xh.Cond(M, "c01_type_twins", t(450, 1800), kind=sb, examples=["r1=11, r2=16, a=43, how=0", "r1=0, r2=0, a=0, how=1", "r1=35, r2=8, a=99, how=2"],
                bounds="pairs of look-alike types nested two deep (%s of the 48 x 48 x 128 root / inner root / leaf choices) x 3 kinds of inner difference, in 6 type positions of one file" % ("every fourth (root, leaf) pair, all inner roots" if not q else "every sixteenth (root, leaf) pair, inner root derived")),
        xh.Cond(M, "c01_keyword_identifiers", t(300, 900), kind=sb, examples=["pos=0, kw=3, form=0", "pos=7, kw=0, form=0", "pos=20, kw=5, form=0"],
                bounds="%d identifier positions x %d reserved words of the live grammar x %d ways of extending them into an identifier" % (NPOS, NKW, NFORM)),
        xh.Cond(M, "c01_toplevel", t(300, 3000), kind=sb, examples=["ka=2, kb=9, kc=4, t0=7, d0=3, nsdepth=2", "ka=3, kb=10, kc=8, t0=1, d0=1, nsdepth=3"],
                bounds="%d x %d%s sibling declaration kinds x namespace depth 0-3" % (NTK, NTK, " x %d" % NTK if not q else " (third derived)")),
    ]
