"""C02 — template instantiation is exact, capture-free substitution.

Spelling-symbolic CrossHair harnesses over the REAL gtwrap.template_instantiator functions.
`p` = template-parameter spelling, `q` = some other identifier occurring in the declaration.
The oracle is an independent reference substitution + renderer on small tuple descriptors:
    ty = (const:bool, namespaces:tuple[str], name:str, args:tuple[ty], suffix in '', '*', '@', '&')
"""
import gtwrap.interface_parser as parser
import gtwrap.template_instantiator as ti
from gtwrap.template_instantiator import helpers as H

from harness.pipe import is_ident, IDENT_FIRST, IDENT_REST
from vlib.trace import reached, concrete, pick
from harness.known import kf_open

import os
import re
LAST_FAILURE = None
THOROUGH = os.environ.get("VERIF_TIER", "quick") == "thorough"
# identifier-length bounds (quick / thorough); the runner reports the ones in force
LP = 3 if THOROUGH else 2      # template-parameter spelling
LQ = 5 if THOROUGH else 3      # the other identifier
LP3, LQ3 = (2, 3) if THOROUGH else (1, 2)   # depth-3 nesting condition

BASIC = ("void", "bool", "unsigned char", "char", "int", "size_t", "double", "float")


# ---------------------------------------------------------------- reference ----
def ref_subst(ty, params, insts, this, full_this=False):
    """Reference semantics of the property: whole-name or leading-scope match, any depth.

    `This` alone is the instantiated class (fully qualified).  A scoped `This::m` (or `ns::This::m`, the
    form DOCS.md documents) names the class in place; the tool's two historical renderings of that — class
    name only (`Cls<X>::m`, the documented one) and fully qualified (`gt::Cls<X>::m`) — both designate the
    instantiated class, so the caller accepts either (full_this selects which one is produced).
    """
    const, nss, name, args, suf = ty
    args2 = tuple(ref_subst(a, params, insts, this, full_this) for a in args)
    parts = tuple(nss) + (name,)
    head = parts[0]
    if head in params:
        i = params.index(head)
        ins = insts[i]                       # a descriptor without qualifiers: (False, nss, name, args, '')
        if len(parts) == 1:
            return (const, ins[1], ins[2], ins[3], suf)
        return (const, tuple(ins[1]) + (ref_name(ins),) + tuple(parts[1:-1]), parts[-1], args2, suf)
    if this is not None and parts == ("This",):
        return (const, this[1], this[2], this[3], suf)
    if this is not None and "This" in nss:
        k = list(nss).index("This")
        rep = (tuple(this[1]) if full_this else ()) + (ref_name(this),)
        return (const, tuple(nss[:k]) + rep + tuple(nss[k + 1:]), name, args2, suf)
    return (const, nss, name, args2, suf)


def ref_name(ty):
    """name<args> without namespaces / qualifiers."""
    _c, _n, name, args, _s = ty
    if args:
        return name + "<" + ", ".join(ref_cpp(a) for a in args) + ">"
    return name


def ref_cpp(ty):
    const, nss, name, args, suf = ty
    core = "::".join(tuple(nss) + (ref_name(ty),))
    if suf == "*":
        core = "std::shared_ptr<" + core + ">"
    elif suf == "@":
        core = core + "*"
    elif suf == "&":
        core = core + "&"
    return ("const " if const else "") + core


# ------------------------------------------------------------- AST builders ----
def mk_typename(ty):
    _c, nss, name, args, _s = ty
    return parser.Typename(list(nss) + [name], [mk_typename(a) for a in args])


def mk_type(ty):
    """Build the node the real parser would build for this type expression."""
    const, nss, name, args, suf = ty
    c = "const" if const else ""
    sp = "*" if suf == "*" else ""
    rp = "@" if suf == "@" else ""
    rf = "&" if suf == "&" else ""
    if args:
        # what TemplatedType.rule produces: template_params are Types (or TemplatedTypes)
        return parser.TemplatedType(parser.Typename(list(nss) + [name]), [mk_type(a) for a in args], c, sp, rp, rf)
    is_basic = (not nss) and name in BASIC
    return parser.Type(parser.Typename(list(nss) + [name]), c, sp, rp, rf, is_basic)


def T(name, *args, ns=(), const=False, suf=""):
    return (const, tuple(ns), name, tuple(args), suf)


X = T("X", ns=("ns",))                       # concrete instantiation  ns::X
Y = T("Y", T("int"), ns=("ns",))             # templated instantiation ns::Y<int>
CLS = T("Cls", ns=("gt",))                   # the enclosing class for `This`


def _fail(**kw):
    global LAST_FAILURE
    with concrete():
        LAST_FAILURE = {k: str(v) for k, v in kw.items()}
    return False


def _check_type(ty, params, insts, this=CLS):
    node = mk_type(ty)
    out = H.instantiate_type(node, list(params), [mk_typename(i) for i in insts], mk_typename(this) if this else '')
    got = out.to_cpp()
    want = ref_cpp(ref_subst(ty, tuple(params), tuple(insts), this))
    if got != want:
        want2 = ref_cpp(ref_subst(ty, tuple(params), tuple(insts), this, True))
        if got != want2:
            return _fail(type=ref_cpp(ty), params=params, got=got, want=want)
    return True


def _pre(p, q, lp, lq):
    return is_ident(p, 1, lp) and is_ident(q, 1, lq) and p != q and p != "This" and q != "This" \
        and p not in BASIC and q not in BASIC and p != "const" and q != "const"


# ------------------------------------------------------------- conditions ------
def c02_plain(p: str, q: str, qual: int) -> bool:
    """
    Bare parameter `p` becomes the instantiation with qualifiers kept; an unrelated type `q` is untouched.
    pre: _pre(p, q, LP, LQ + 1) and 0 <= qual < 5
    pre: not (kf_open('C02-substring') and p in q)
    post: _
    """
    suf = ("", "*", "@", "&", "&")[qual]
    const = qual == 4
    ok = _check_type(T(p, const=const, suf=suf), [p], [X]) \
        and _check_type(T(q, const=const, suf=suf), [p], [X]) \
        and _check_type(T(q, ns=("other",), const=const, suf=suf), [p], [X]) \
        and _check_type(T(p, const=const, suf=suf), [p], [Y])
    reached()
    return ok


def c02_scoped(p: str, q: str, qual: int) -> bool:
    """
    Scoped use `p::q` becomes `<inst>::q` — `q` may contain p's spelling and must not be rewritten.
    pre: _pre(p, q, LP, LQ + 1) and 0 <= qual < 3
    pre: not (kf_open('C02-substring') and p in q)
    post: _
    """
    suf = ("", "&", "*")[qual]
    ok = _check_type(T(q, ns=(p,), const=(qual == 1), suf=suf), [p], [X])
    reached()
    return ok


def c02_unrelated_scope(p: str, q: str) -> bool:
    """
    A type that merely lives in a namespace, or has a member, spelled like something containing `p`
    (`q::Value`, `other::q`) is not a use of the parameter and stays untouched.
    pre: _pre(p, q, LP, LQ + 1)
    pre: not (kf_open('C02-substring') and p in q)
    post: _
    """
    ok = _check_type(T("Value", ns=(q,)), [p], [X]) and _check_type(T(q, ns=("other", "deep")), [p], [X])
    reached()
    return ok


def c02_two_params(p: str, q: str) -> bool:
    """
    Two parameters p, q with instantiations X, Y: each occurrence maps to its own instantiation.
    pre: _pre(p, q, LP, LQ)
    pre: not (kf_open('C02-substring') and (p in q or q in p))
    post: _
    """
    ok = _check_type(T(p, suf="&", const=True), [p, q], [X, Y]) and _check_type(T(q, suf="*"), [p, q], [X, Y]) \
        and _check_type(T("Value", ns=(q,)), [p, q], [X, Y]) and _check_type(T("Value", ns=(p,)), [p, q], [X, Y])
    reached()
    return ok


def _nested(p, q, depth, shape):
    inner = (T(p), T(p, const=True, suf="&"), T("Value", ns=(p,)), T(p, suf="*"), T("Rebind", T(p), T("This"), ns=(p,)))[shape]
    ty = inner
    d = 0
    while d < depth:
        ty = T("vec", T("lst", T(q), ns=("std",)), ty, ns=("std",)) if d == 0 else T("opt", ty, ns=("std",), const=(d == 2), suf=("&" if d == 2 else ""))
        d += 1
    ok = _check_type(ty, [p], [X])
    reached()
    return ok


def c02_nested_d1(p: str, q: str, shape: int) -> bool:
    """
    Occurrence inside template arguments at depth 1 (`std::vec<std::lst<q>, ...p...>`: a templated sibling comes first), bare / qualified / scoped.
    pre: _pre(p, q, LP, LQ) and 0 <= shape < 5
    pre: not (kf_open('C02-substring') and p in q)
    post: _
    """
    return _nested(p, q, 1, shape)


def c02_nested_d2(p: str, q: str, shape: int) -> bool:
    """
    Depth 2 (`std::opt<std::vec<std::lst<q>, ...p...>>`).
    pre: _pre(p, q, LP3, LQ3) and 0 <= shape < 5
    pre: not (kf_open('C02-substring') and p in q)
    post: _
    """
    return _nested(p, q, 2, shape)


def c02_nested_d3(p: str, q: str, shape: int) -> bool:
    """
    Depth 3 (`const std::opt<std::opt<std::vec<q, ...p...>>>&`).
    pre: _pre(p, q, LP3, LQ3) and 0 <= shape < 4
    pre: not (kf_open('C02-substring') and p in q)
    post: _
    """
    return _nested(p, q, 3, shape)


def c02_this(q: str, shape: int) -> bool:
    """
    `This` becomes the instantiated class (bare, scoped `This::q`, nested `vec<This>`); a type merely
    containing "This" in its spelling (`q` = e.g. `Thisx`) is untouched.
    pre: is_ident(q, 1, 6) and q != "This" and q != "T" and q not in BASIC and q != "const" and 0 <= shape < 4
    pre: not (kf_open('C02-this-substring') and 'This' in q)
    post: _
    """
    ty = (T("This", suf="&", const=True), T(q, ns=("This",)), T("vec", T("This"), ns=("std",)), T(q))[shape]
    ok = _check_type(ty, ["T"], [X])
    reached()
    return ok


# ---------------------------------------------------------------- every type tree of a small algebra (small-scope exhaustive)
L_NAMES = ["T", "Key", "This"]
L_NS = [(), ("T",), ("This",), ("ns",), ("T", "Traits"), ("This", "Inner")]
L_QUAL = [(False, ""), (True, "&"), (False, "*")]
R_NAMES = ["vec", "Rebind"]
R_NS = [("std",), ("T",), ("This",)]
NLEAF = len(L_NAMES) * len(L_NS) * len(L_QUAL)        # 54
NROOT = len(R_NAMES) * len(R_NS) * len(L_QUAL)        # 18
B_REPS = [0, 19, 21, 26, 31, 33, 36, 27]              # second-argument leaves: T, const Key&, T::Key, This::Key*, const T::Traits::Key&, This::Inner::Key, This, ns::Key


def leaf(code):
    n, r = divmod(code, len(L_NS) * len(L_QUAL))
    ns, q = divmod(r, len(L_QUAL))
    const, suf = L_QUAL[q]
    return T(L_NAMES[n], ns=L_NS[ns], const=const, suf=suf)


def leaf_claimed(code):
    """`ns::T` / `This::T` (a parameter's spelling in a non-leading position) is not claimed either way (DESIGN 10)"""
    ty = leaf(code)
    return not (ty[2] == "T" and ty[1])


def root(code, args):
    n, r = divmod(code, len(R_NS) * len(L_QUAL))
    ns, q = divmod(r, len(L_QUAL))
    const, suf = L_QUAL[q]
    return T(R_NAMES[n], *args, ns=R_NS[ns], const=const, suf=suf)


with concrete():
    _IC_MOD = parser.Module.parseString("namespace gt { template<T> class Cls { Cls(); }; }")
    _IC = ti.InstantiatedClass(_IC_MOD.content[0].content[0], [mk_typename(X)])
THIS_X = T("Cls", X, ns=("gt",))


def _check_tree(ty):
    node = mk_type(ty)
    w1 = ref_cpp(ref_subst(ty, ("T",), (X,), THIS_X))
    w2 = ref_cpp(ref_subst(ty, ("T",), (X,), THIS_X, True))
    for with_class in (False, True):
        try:
            # the callers' contract: cpp_typename is InstantiatedClass.cpp_typename() (template arguments baked into the name)
            out = H.instantiate_type(node, ["T"], [mk_typename(X)], _IC.cpp_typename(), _IC if with_class else None)
            got = out.to_cpp()
        except Exception as ex:
            got = "raised %r" % ex
        # a scoped `This::m` may be rendered `Cls<..>::m` or `gt::Cls<..>::m`, occurrence by occurrence (both name the class)
        if got.replace("gt::Cls<ns::X>::", "Cls<ns::X>::") != w1:
            return _fail(type=ref_cpp(ty), instantiated_class_given=with_class, got=got, want=(w1, w2))
        if mk_type(ty).to_cpp() != node.to_cpp():
            return _fail(type=ref_cpp(ty), problem="instantiate_type modified its argument", now=node.to_cpp())
    return True


def c02_all_trees(kind: int, r: int, a: int, b: int) -> bool:
    """
    Every type expression of a small algebra — leaves {T, Key, This} x scopes {none, T::, This::, ns::, T::Traits::, This::Inner::} x {plain, const&, *};
    templated roots {std::vec, T::Rebind, This::Rebind, ...} x qualifiers with one or two such leaves as arguments —
    through `instantiate_type`, with and without the instantiated class handed over (the static-method path):
    equals the reference substitution; the declared node is left unmodified.
    pre: 0 <= kind <= 2 and 0 <= r < NROOT and 0 <= a < NLEAF and 0 <= b < len(B_REPS)
    pre: THOROUGH or kind == 0 or r % 3 == a % 3
    post: _
    """
    kind, a = pick(kind, 0, 3), pick(a, 0, NLEAF)
    ok = True
    with concrete():
        claimed = leaf_claimed(a)
    if kind == 0:
        with concrete():
            ok = (not claimed) or _check_tree(leaf(a))
    else:
        r = pick(r, 0, NROOT)
        if kind == 1:
            with concrete():
                ok = (not claimed) or _check_tree(root(r, [leaf(a)]))
        else:
            b = pick(b, 0, len(B_REPS)) if THOROUGH else (a + r) % len(B_REPS)
            with concrete():
                ok = (not claimed) or (not leaf_claimed(B_REPS[b])) or _check_tree(root(r, [leaf(a), leaf(B_REPS[b])]))
    reached({"kind": kind, "root": r, "a": a} if (not ok) else None)
    return ok


# -- through the class / function instantiators (positions: ctor, method arg+return, static, property,
#    operator, base class, pair return, free function) ------------------------------------------------------

SRC_CLASS = """
namespace gt {
template<TT = {ns::X}>
virtual class Cls : Base<TT> {
  Cls(const TT& a, QQ b = dflt(TT, 1));
  template<UU = {ns::Y<int>}>
  TT meth(UU* u, TT::QQ v, const QQ& w, const This::QQ& tq) const;
  pair<TT, QQ> pr(std::vector<TT> vs);
  static This make(const TT@ t, QQ name);
  static This::QQ pick(std::vector<This::QQ> many, const This::QQ& one, std::vector<This> all);
  static std::vector<This::QQ> every(TT::QQ v);
  TT prop;
  const QQ other;
  TT operator+(const TT& o) const;
};
}
"""

SRC_FUNC = """
namespace gt {
template<TT = {ns::X}, UU = {ns::Y<int>}>
pair<TT, UU::QQ> fn(const TT& a, std::map<QQ, UU> m, QQ q = TT);
}
"""


def _rename(obj, mapping, seen=None):
    """Rename identifiers in a parsed declaration tree in place (concrete spellings TT/QQ/UU -> symbolic)."""
    if seen is None:
        seen = set()
    if id(obj) in seen or obj is None or isinstance(obj, (str, int, bool)):
        return
    seen.add(id(obj))
    if isinstance(obj, (list, tuple)):
        for o in obj:
            _rename(o, mapping, seen)
        return
    if isinstance(obj, parser.Typename):
        obj.name = mapping.get(obj.name, obj.name) if isinstance(obj.name, str) else obj.name
        obj.namespaces = [mapping.get(n, n) for n in obj.namespaces]
        _rename(obj.instantiations, mapping, seen)
        return
    if isinstance(obj, parser.template.Template):
        obj.typenames = [mapping.get(n, n) for n in obj.typenames]
        _rename(obj.instantiations, mapping, seen)
        return
    for attr in ("typename", "template_params", "ctype", "type1", "type2", "args", "args_list", "return_type",
                 "template", "ctors", "methods", "static_methods", "properties", "operators", "parent_class"):
        if hasattr(obj, attr):
            _rename(getattr(obj, attr), mapping, seen)


def _parse_class(mapping):
    with concrete():
        mod = parser.Module.parseString(SRC_CLASS)
    cls = mod.content[0].content[0]
    _rename(cls, mapping)
    return cls


def _ty_of(node):
    """Descriptor of a parsed (uninstantiated) type node — read back from the AST the harness itself built."""
    if isinstance(node, parser.TemplatedType):
        return (bool(node.is_const), tuple(node.typename.namespaces), node.typename.name,
                tuple(_ty_of(t) for t in node.template_params),
                "*" if node.is_shared_ptr else "@" if node.is_ptr else "&" if node.is_ref else "")
    return (bool(node.is_const), tuple(node.typename.namespaces), node.typename.name,
            tuple((False, tuple(i.namespaces), i.name, (), "") for i in node.typename.instantiations),
            "*" if node.is_shared_ptr else "@" if node.is_ptr else "&" if node.is_ref else "")


def c02_class_positions(p: str, q: str) -> bool:
    """
    Every position of a class template (ctor args, method args/return, member-template parameter, pair
    return, static return `This`, properties, operator, templated base) through InstantiatedClass.
    pre: _pre(p, q, LP, LQ) and p != "UU" and q != "UU"
    pre: not (kf_open('C02-substring') and p in q)
    post: _
    """
    cls = _parse_class({"TT": p, "QQ": q})
    # expected, from the uninstantiated tree + reference substitution
    this = T("Cls", X, ns=("gt",))
    params_c, insts_c = (p,), (X,)
    params_m, insts_m = (p, "UU"), (X, Y)

    def want(node, params, insts):
        return ref_cpp(ref_subst(_ty_of(node), params, insts, this))

    exp = []
    exp.append(("base", want(cls.parent_class, params_c, insts_c)))
    for a in cls.ctors[0].args.list():
        exp.append(("ctor." + a.name, want(a.ctype, params_c, insts_c), a.default))
    m = cls.methods[0]
    for a in m.args.list():
        exp.append(("meth." + a.name, want(a.ctype, params_m, insts_m), a.default))
    exp.append(("meth.ret", want(m.return_type.type1, params_m, insts_m)))
    m = cls.methods[1]
    exp.append(("pr.ret1", want(m.return_type.type1, params_c, insts_c)))
    exp.append(("pr.ret2", want(m.return_type.type2, params_c, insts_c)))
    exp.append(("pr.vs", want(m.args.list()[0].ctype, params_c, insts_c), None))
    s = cls.static_methods[0]
    exp.append(("make.ret", want(s.return_type.type1, params_c, insts_c)))
    for a in s.args.list():
        exp.append(("make." + a.name, want(a.ctype, params_c, insts_c), a.default))
    for pr in cls.properties:
        exp.append(("prop." + pr.name, want(pr.ctype, params_c, insts_c)))
    op = cls.operators[0]
    exp.append(("op.ret", want(op.return_type.type1, params_c, insts_c)))
    exp.append(("op.o", want(op.args.list()[0].ctype, params_c, insts_c), None))

    snapshot = [_ty_of(a.ctype) for a in cls.methods[0].args.list()]     # the declaration as written, before any instantiation
    ic = ti.InstantiatedClass(cls, [mk_typename(X)])
    # a second instantiation of the same template must be as if it were the only one
    ic2 = ti.InstantiatedClass(cls, [mk_typename(Y)])
    this2 = T("Cls", Y, ns=("gt",))
    m2 = ic2.methods[0]
    for a, ty0 in zip(m2.args.list(), snapshot):
        w1 = ref_cpp(ref_subst(ty0, (p, "UU"), (Y, Y), this2))
        w2 = ref_cpp(ref_subst(ty0, (p, "UU"), (Y, Y), this2, True))
        if a.ctype.to_cpp() != w1 and a.ctype.to_cpp() != w2:
            reached()
            return _fail(position="second instantiation meth." + a.name, got=a.ctype.to_cpp(), want=w1)
    s2 = ic2.static_methods[0]
    if s2.return_type.type1.to_cpp() != ref_cpp(this2):
        reached()
        return _fail(position="second instantiation make.ret", got=s2.return_type.type1.to_cpp(), want=ref_cpp(this2))
    got = []
    got.append(("base", ic.parent_class.to_cpp() if hasattr(ic.parent_class, "to_cpp") else str(ic.parent_class)))
    for a in ic.ctors[0].args.list():
        got.append(("ctor." + a.name, a.ctype.to_cpp(), a.default))
    m = ic.methods[0]
    for a in m.args.list():
        got.append(("meth." + a.name, a.ctype.to_cpp(), a.default))
    got.append(("meth.ret", m.return_type.type1.to_cpp()))
    m = ic.methods[1]
    got.append(("pr.ret1", m.return_type.type1.to_cpp()))
    got.append(("pr.ret2", m.return_type.type2.to_cpp()))
    got.append(("pr.vs", m.args.list()[0].ctype.to_cpp(), None))
    s = ic.static_methods[0]
    got.append(("make.ret", s.return_type.type1.to_cpp()))
    for a in s.args.list():
        got.append(("make." + a.name, a.ctype.to_cpp(), a.default))
    for pr in ic.properties:
        got.append(("prop." + pr.name, pr.ctype.to_cpp()))
    op = ic.operators[0]
    got.append(("op.ret", op.return_type.type1.to_cpp()))
    got.append(("op.o", op.args.list()[0].ctype.to_cpp(), None))
    ok = True
    for si in (1, 2):
        so, sg = cls.static_methods[si], ic.static_methods[si]
        pairs = [(so.name + ".ret", so.return_type.type1, sg.return_type.type1)] + [
            (so.name + "." + ao.name, ao.ctype, ag.ctype) for ao, ag in zip(so.args.list(), sg.args.list())]
        for label, node, gnode in pairs:
            w1 = ref_cpp(ref_subst(_ty_of(node), params_c, insts_c, this))
            w2 = ref_cpp(ref_subst(_ty_of(node), params_c, insts_c, this, True))
            if gnode.to_cpp() not in (w1, w2):
                reached()
                return _fail(position="static " + label, got=gnode.to_cpp(), want=(w1, w2))
    if len(got) != len(exp):
        ok = _fail(got=got, want=exp)
    else:
        for g, e in zip(got, exp):
            if g != e and not (e[0] == "meth.tq" and g[1] == "const gt::Cls<ns::X>::" + q + "&"):
                ok = _fail(position=e[0], got=g, want=e)
                break
    reached()
    return ok


SRC_SHADOW = """
namespace gt {
template<TT = {ns::X}>
class Cls {
  template<TT = {ns::Y<int>}>
  std::vector<TT> put(TT item, const std::vector<TT>& items, std::map<int, std::vector<TT::QQ>> deep, TT::QQ member);
  template<TT = {ns::Y<int>}>
  static TT Make(std::vector<TT> many);
  template<TT = {ns::Y<int>}>
  Cls(const TT& one, std::vector<TT*> several);
};
}
"""


def c02_shadowed_parameter(p: str, q: str) -> bool:
    """
    A member template (method, static method, constructor) whose parameter is spelled like the class parameter: all
    occurrences of that spelling in one signature — bare, nested in template arguments at depth 1-2, scoped —
    designate the SAME concrete type (whichever binding the tool gives precedence).
    pre: _pre(p, q, LP, LQ) and p != "UU" and q != "UU"
    pre: not (kf_open('C02-substring') and p in q)
    post: _
    """
    with concrete():
        mod = parser.Module.parseString(SRC_SHADOW)
    cls = mod.content[0].content[0]
    _rename(cls, {"TT": p, "QQ": q})
    ic = ti.InstantiatedClass(cls, [mk_typename(X)])
    ok = True
    for label, sig, shape in (("put", [ic.methods[0].return_type.type1] + [a.ctype for a in ic.methods[0].args.list()],
                               ["std::vector<%s>", "%s", "const std::vector<%s>&", "std::map<int, std::vector<%s::" + q + ">>", "%s::" + q]),
                              ("Make", [ic.static_methods[0].return_type.type1] + [a.ctype for a in ic.static_methods[0].args.list()], ["%s", "std::vector<%s>"]),
                              ("ctor", [a.ctype for a in ic.ctors[0].args.list()], ["const %s&", "std::vector<std::shared_ptr<%s>>"])):
        cpps = [t.to_cpp() for t in sig]
        # exact expectation per binding (string equality keeps the spellings symbolic): all occurrences become ns::X, or all ns::Y<int>
        if not any(cpps == [x.replace("%s", c) for x in shape] for c in ("ns::X", "ns::Y<int>")):
            ok = _fail(member=label, types=cpps, problem="the occurrences of the parameter are not all replaced by one and the same concrete type")
            break
    reached()
    return ok


SRC_TWIN = """
namespace gt {
template<TT = {ns::X}>
class Cls {
  std::vector<geo::TT> f(std::vector<geo::TT> a, std::map<int, std::vector<geo::TT<int>>> b, geo::TT c, std::vector<TT> d, geo::sub::TT e,
                         std::vector<geo::sub::TT*> g, std::pair<geo::TT, TT> h) const;
  static geo::TT<TT> Make(std::vector<geo::TT<TT>> many);
  Cls(const std::vector<geo::TT>& one, TT two);
};
}
"""


def c02_qualified_twin(p: str) -> bool:
    """
    Capture-freedom for a namespace-QUALIFIED type whose last component is spelled like the template parameter
    (`geo::p`, `geo::sub::p`, `geo::p<int>`): at the top level and nested in template arguments at depth 1-2 it is left
    alone, while the bare `p` next to it is replaced.
    pre: _pre(p, "QQ", LP, 2) and p != "UU" and p not in ("geo", "sub", "std", "vector", "map", "pair", "ns", "X", "gt", "Cls")
    post: _
    """
    with concrete():
        mod = parser.Module.parseString(SRC_TWIN)
    cls = mod.content[0].content[0]
    _rename(cls, {"TT": p})
    ic = ti.InstantiatedClass(cls, [mk_typename(X)])
    m, st, ct = ic.methods[0], ic.static_methods[0], ic.ctors[0]
    got = [m.return_type.type1.to_cpp()] + [a.ctype.to_cpp() for a in m.args.list()] + [st.return_type.type1.to_cpp()] + \
          [a.ctype.to_cpp() for a in st.args.list()] + [a.ctype.to_cpp() for a in ct.args.list()]
    want = ["std::vector<geo::" + p + ">", "std::vector<geo::" + p + ">", "std::map<int, std::vector<geo::" + p + "<int>>>", "geo::" + p, "std::vector<ns::X>",
            "geo::sub::" + p, "std::vector<std::shared_ptr<geo::sub::" + p + ">>", "std::pair<geo::" + p + ", ns::X>", "geo::" + p + "<ns::X>", "std::vector<geo::" + p + "<ns::X>>",
            "const std::vector<geo::" + p + ">&", "ns::X"]
    ok = got == want
    if not ok:
        with concrete():
            _fail(p=p, differing=[(g, w) for g, w in zip(got, want) if g != w][:4])
    reached()
    return ok


TINSTS = [T("Y", T("Z", ns=("ns",)), ns=("ns",)),                                     # ns::Y<ns::Z>: the argument repeats the qualifier
          T("Y", T("Z", ns=("myns",)), ns=("ns",)),                                   # ns::Y<myns::Z>: the qualifier is a suffix of the argument's
          T("Cam", T("Cal", ns=("gtsam",)), T("K", ns=("gtsam", "sub")), ns=("gtsam",)),  # two arguments, one nested deeper
          T("Y", T("Y", T("Z", ns=("ns",)), ns=("ns",)), ns=("ns",)),                 # ns::Y<ns::Y<ns::Z>>
          T("Plain", T("Z", ns=("ns",))),                                             # un-namespaced template, namespaced argument
          T("Y", T("Z", ns=("ns", "ns")), ns=("ns", "ns"))]                           # ns::ns::Y<ns::ns::Z>
TSHAPES = [T("Value", ns=("T",)), T("vector", T("Value", ns=("T",)), ns=("std",)), T("Scalar", ns=("T", "Traits")),
           T("map", T("int"), T("vector", T("Value", ns=("T",), suf="*"), ns=("std",)), ns=("std",)), T("Value", ns=("T",), const=True, suf="&"),
           T("T"), T("vector", T("T"), ns=("std",)), T("Rebind", T("T"), ns=("T",)), T("pair", T("T"), T("Value", ns=("T",)), ns=("std",))]


def c02_templated_instantiations(inst: int, shape: int, this: int) -> bool:
    """
    The parameter instantiated with a TEMPLATED concrete type whose own template arguments repeat (or end in) its
    namespace qualifier: bare, scoped (`T::Value`, `T::Traits::Scalar`, `T::Rebind<T>`) and nested uses are replaced by
    exactly that type — its arguments, with their own qualifiers, intact.
    pre: 0 <= inst < len(TINSTS) and 0 <= shape < len(TSHAPES) and 0 <= this <= 1
    post: _
    """
    inst, shape, this = pick(inst, 0, len(TINSTS)), pick(shape, 0, len(TSHAPES)), pick(this, 0, 2)
    with concrete():
        ok = _check_type(TSHAPES[shape], ["T"], [TINSTS[inst]], CLS if this else None)
    reached({"inst": inst, "shape": shape})
    return ok


def c02_function_positions(p: str, q: str) -> bool:
    """
    Free function template: args, pair return with scoped second type, default text untouched.
    pre: _pre(p, q, LP, LQ) and p != "UU" and q != "UU"
    pre: not (kf_open('C02-substring') and p in q)
    post: _
    """
    with concrete():
        mod = parser.Module.parseString(SRC_FUNC)
    fn = mod.content[0].content[0]
    _rename(fn, {"TT": p, "QQ": q})
    params, insts = (p, "UU"), (X, Y)

    def want(node):
        return ref_cpp(ref_subst(_ty_of(node), params, insts, None))
    exp = [("ret1", want(fn.return_type.type1)), ("ret2", want(fn.return_type.type2))]
    for a in fn.args.list():
        exp.append((a.name, want(a.ctype), a.default))
    f = ti.InstantiatedGlobalFunction(fn, [mk_typename(X), mk_typename(Y)])
    got = [("ret1", f.return_type.type1.to_cpp()), ("ret2", f.return_type.type2.to_cpp())]
    for a in f.args.list():
        got.append((a.name, a.ctype.to_cpp(), a.default))
    ok = True
    for g, e in zip(got, exp):
        if g != e:
            ok = _fail(position=e[0], got=g, want=e)
            break
    if len(got) != len(exp):
        ok = _fail(got=got, want=exp)
    reached()
    return ok
