"""C03 — the generated Python module exposes exactly the declared API.

Part 1 (this file, spelling-symbolic): binding names and ignore matching through the REAL PybindWrapper.
Part 2 (harness/c03_census.py, shape-bounded): namespace / submodule / option census.
"""
import keyword
import os

import gtwrap.interface_parser as parser
import gtwrap.template_instantiator as ti
from gtwrap.pybind_wrapper import PybindWrapper

from harness.pipe import is_ident, PYBIND_TPL
from harness.known import kf_open
from vlib.trace import reached, concrete

LAST_FAILURE = None
THOROUGH = os.environ.get("VERIF_TIER", "quick") == "thorough"
LN = 9 if THOROUGH else 6

KW = list(keyword.kwlist)                       # Python's reserved words: a binding of that name is unusable
SPECIAL = ["serialize", "serializable", "print", "svg", "png", "jpeg", "html", "javascript", "markdown", "latex",
           "insert"]
BASIC = ["void", "bool", "char", "int", "size_t", "double", "float", "const", "unsigned", "pair", "static",
         "template", "typedef", "virtual", "class", "enum", "namespace", "operator"]


def _fail(**kw):
    global LAST_FAILURE
    with concrete():
        LAST_FAILURE = {k: str(v) for k, v in kw.items()}
    return False


def _wrapper(ignore=()):
    return PybindWrapper(module_name="mod", top_module_namespaces=[''], use_boost_serialization=False,
                         ignore_classes=list(ignore), module_template=PYBIND_TPL)


with concrete():
    _SRC = parser.Module.parseString(
        "namespace ns { class A { A(); void meth(int a) const; static double smeth(double b); }; void fn(int c); }")


def _fresh():
    with concrete():
        import copy
        return copy.deepcopy(_SRC)


def c03_method_name(name: str) -> bool:
    """
    An instance method is bound under its declared name; a Python keyword gets a trailing underscore.
    pre: is_ident(name, 1, LN) and name not in SPECIAL and name not in BASIC
    pre: not (kf_open('C03-keywords') and name in KW)
    post: _
    """
    mod = _fresh()
    cls = mod.content[0].content[0]
    cls.methods[0].name = name
    w = _wrapper()
    out = w.wrap_methods(cls.methods, "ns::A")
    want_py = name + "_" if name in KW else name
    want = '\n        .def("' + want_py + '",[](ns::A* self, int a){ self->' + name + '(a);}, py::arg("a"))'
    ok = out == want or _fail(name=name, got=out, want=want)
    reached()
    return ok


def c03_static_name(name: str) -> bool:
    """
    A static method is bound with def_static under its declared name (keyword -> trailing underscore).
    pre: is_ident(name, 1, LN) and name not in SPECIAL and name not in BASIC
    pre: not (kf_open('C03-keywords') and name in KW)
    post: _
    """
    mod = _fresh()
    cls = mod.content[0].content[0]
    cls.static_methods[0].name = name
    w = _wrapper()
    out = w.wrap_methods(cls.static_methods, "ns::A")
    want_py = name + "_" if name in KW else name
    want = '\n        .def_static("' + want_py + '",[](double b){return ns::A::' + name + '(b);}, py::arg("b"))'
    ok = out == want or _fail(name=name, got=out, want=want)
    reached()
    return ok


def c03_function_name(name: str) -> bool:
    """
    A free function is bound under its declared name (keyword, and the built-in `print`, get an underscore).
    pre: is_ident(name, 1, LN) and name not in BASIC
    pre: not (kf_open('C03-keywords') and name in KW)
    post: _
    """
    mod = _fresh()
    fn = mod.content[0].content[1]
    fn.name = name
    w = _wrapper()
    out = w.wrap_functions([fn], "ns", prefix="\n    m_ns", suffix=";")
    want_py = name + "_" if (name in KW or name == "print") else name
    want = '\n    m_ns.def("' + want_py + '",[](int c){ ns::' + name + '(c);}, py::arg("c"));'
    ok = out == want or _fail(name=name, got=out, want=want)
    reached()
    return ok


def c03_ignore_exact(entry: str) -> bool:
    """
    A class is left out iff an ignore entry equals its qualified C++ name — not a prefix, suffix or substring.
    pre: len(entry) <= 7 and all(c in "nsA:B_ " for c in entry)
    post: _
    """
    mod = _fresh()
    with concrete():
        inst = ti.instantiate_namespace(mod)
    cls = inst.content[0].content[0]
    w = _wrapper(ignore=[entry])
    out = w.wrap_instantiated_class(cls)
    absent = out == ""
    present = out.startswith('\n    py::class_<ns::A, std::shared_ptr<ns::A>>(m_ns, "A")')
    ok = (absent if entry == "ns::A" else present) or _fail(entry=entry, got=out)
    reached()
    return ok


def c03_class_name(name: str) -> bool:
    """
    A class is registered under its declared name in its namespace's module variable, with its C++ qualified name.
    pre: is_ident(name, 1, 6) and name not in BASIC and name != "This"
    post: _
    """
    mod = _fresh()
    cls = mod.content[0].content[0]
    cls.name = name
    for c in cls.ctors:
        c.name = name
    inst = ti.InstantiatedClass(cls, [])
    w = _wrapper()
    out = w.wrap_instantiated_class(inst)
    head = '\n    py::class_<ns::' + name + ', std::shared_ptr<ns::' + name + '>>(m_ns, "' + name + '")\n        .def(py::init<>())'
    ok = out.startswith(head) or _fail(name=name, got=out, want=head)
    reached()
    return ok
