"""C03 part 2 — census of the generated Python module over namespace / top-namespace / option shapes."""
import os
import re

from harness import pipe, readers
from vlib.trace import reached, concrete, pick
from vlib import xh

LAST_FAILURE = None
THOROUGH = os.environ.get("VERIF_TIER", "quick") == "thorough"
POOL = ["a", "b", "ab"]


def _fail(**kw):
    global LAST_FAILURE
    LAST_FAILURE = {k: repr(v)[:1800] for k, v in kw.items()}
    return False


def entities(tag, with_tmpl=True, path=()):
    """declarations of one scope and what they must expose: (kind, python name)"""
    decl = ("class K%s { K%s(); K%s(const std::vector<size_t>& keys); K%s(const std::vector<string>& keys); "
            "void meth(int x) const; void meth(std::map<int, double> x) const; void meth(std::map<int, string> x) const; "
            "static int smeth(); double prop; void print() const; void lambda() const; "
            "K%s operator+(const K%s& o) const; __len__(); enum Inner { I1, I2 }; }; "
            "void fn%s(); void fn%s(int overload); double v%s; const int c%s = 7; enum E%s { X%s, Y%s }; "
            "class Fwd%s; ") % ((tag,) * 14)
    exp = [("class", "K" + tag), ("enum", "Inner"), ("function", "fn" + tag), ("function", "fn" + tag), ("attr", "v" + tag), ("attr", "c" + tag),
           ("enum", "E" + tag)]
    members = {"K" + tag: [("init", None), ("init", None), ("init", None), ("def", "meth"), ("def", "meth"), ("def", "meth"), ("def", "print"), ("def", "__repr__"), ("def", "lambda_"), ("def_static", "smeth"),
                           ("def", "__len__"), ("def_readwrite", "prop"), ("op", "py::self + py::self")]}
    if with_tmpl:
        decl += "template<T = {double, int}> class T%s { T%s(T t); }; typedef %sT%s<bool> Tb%s; " % (tag, tag, "".join(x + "::" for x in path), tag, tag)
        exp += [("class", "T%sDouble" % tag), ("class", "T%sInt" % tag), ("class", "Tb" + tag)]
        for n in ("T%sDouble" % tag, "T%sInt" % tag, "Tb" + tag):
            members[n] = [("init", None)]
    return decl, exp, members


def build(n0, n1, n2, m0, reopen, hollow=0):
    """text + list of (namespace path, tag)"""
    N0, N1, N2, M0 = POOL[n0], POOL[n1], POOL[n2], POOL[m0]
    scopes = [((), "G"), ((N0,), "A"), ((N0, N1), "B"), ((N0, N1, N2), "C")]
    parts = {}
    exps = []
    for path, tag in scopes:
        d, e, mem = entities(tag, with_tmpl=(tag in "GB"), path=path)
        if hollow and tag == "A":
            d, e, mem = "", [], {}            # a namespace whose only content is a nested namespace
        parts[tag] = d
        exps.append((path, e, mem))
    text = parts["G"] + "\nnamespace %s { %s namespace %s { %s namespace %s { %s } } }\n" % (N0, parts["A"], N1, parts["B"], N2, parts["C"])
    if reopen:
        d, e, mem = entities("R", with_tmpl=False)
        text += "namespace %s { %s namespace %s { void again(); } }\n" % (N0, d, N1)
        exps.append(((N0,), e, mem))
        exps.append(((N0, N1), [("function", "again")], {}))
    if M0 != N0:
        d, e, mem = entities("M", with_tmpl=False)
        text += "namespace %s { %s }\n" % (M0, d)
        exps.append(((M0,), e, mem))
    return text, exps, (N0, N1, N2, M0)


def top_path(names, topsel):
    N0, N1, N2, _ = names
    real = [N0, N1, N2]
    if topsel <= 3:
        return real[:topsel]
    # a path that leaves the declared tree at depth topsel-3
    k = topsel - 3
    other = [x for x in POOL if x != real[k - 1]][0]
    return real[:k - 1] + [other]


def check(n0, n1, n2, m0, reopen, topsel, boost, hollow=0):
    text, exps, names = build(n0, n1, n2, m0, reopen, hollow)
    top = [''] + top_path(names, topsel)
    body = pipe.pybind_body(text, top=top, boost=bool(boost))
    ents = readers.parse_pybind(body)
    problems = []
    # expected census
    want = []
    want_members = {}
    want_sub = []
    for path, e, mem in exps:
        q = [''] + list(path)
        m = min(len(q), len(top))
        if q[:m] != top[:m] or len(q) < len(top):
            continue
        rel = q[len(top):]
        var = "m_" + "_".join(rel)
        for i in range(1, len(rel) + 1):
            sv = "m_" + "_".join(rel[:i])
            if sv not in [s[0] for s in want_sub]:
                want_sub.append((sv, "m_" + "_".join(rel[:i - 1]), rel[i - 1]))
        for kind, name in e:
            want.append((var, kind, name))
        for cname, ms_ in mem.items():
            want_members[(var, cname)] = ms_
    got = []
    declared_vars = {"m_": -1}
    for idx, e in enumerate(ents):
        if e["ent"] == "submodule":
            if e["var"] in declared_vars:
                problems.append("submodule variable %s created more than once" % e["var"])
            if e["parent"] not in declared_vars:
                problems.append("submodule %s created in %s before that exists" % (e["var"], e["parent"]))
            declared_vars[e["var"]] = idx
        elif e["ent"] == "class":
            got.append((e["module"], "class", e["name"]))
            if e["module"] not in declared_vars:
                problems.append("class %s placed in %s before it is created" % (e["name"], e["module"]))
            if e.get("instance"):
                declared_vars[e["instance"]] = idx
            wm = want_members.get((e["module"], e["name"]))
            if wm is not None:
                gm = []
                for d in e["defs"]:
                    if d["kind"] == "init":
                        gm.append(("init", None))
                    elif "expr" in d:
                        gm.append(("op", d["expr"]))
                    else:
                        gm.append((d["kind"], d.get("name")))
                if gm != wm:
                    problems.append("class %s exposes %r, declared %r" % (e["name"], gm, wm))
        elif e["ent"] == "enum":
            got.append((e["module"], "enum", e["name"]))
            if e["module"] not in declared_vars:
                problems.append("enum %s placed in %s before it is created" % (e["name"], e["module"]))
        elif e["ent"] == "attr":
            got.append((e["module"], "attr", e["name"]))
            if e["module"] not in declared_vars:
                problems.append("variable %s placed in %s before it is created" % (e["name"], e["module"]))
        elif e["ent"] == "chain":
            for d in e["defs"]:
                got.append((e["target"], "function", d.get("name")))
            if e["target"] not in declared_vars:
                problems.append("functions placed in %s before it is created" % e["target"])
        elif e["ent"] == "other":
            problems.append("unrecognised statement %r" % e["stmt"][:80])
    # class-scoped enums are registered on the class instance variable: map them back to the class's module
    inst_to_mod = {e["instance"]: e["module"] for e in ents if e["ent"] == "class" and e.get("instance")}
    got = [(inst_to_mod.get(m, m), k, n) for m, k, n in got]
    if sorted(got) != sorted(want):
        problems.append("exposed but not declared in the top namespace: %r; declared but not exposed: %r" % (
            sorted(set(got) - set(want))[:6], sorted(set(want) - set(got))[:6]))
        if len(got) != len(set(got)) or sorted(set(got)) == sorted(set(want)):
            problems.append("multiplicities differ: %r" % [x for x in set(got) if got.count(x) != want.count(x)][:5])
    got_sub = [(e["var"], e["parent"], e["name"]) for e in ents if e["ent"] == "submodule"]
    if sorted(got_sub) != sorted(want_sub):
        problems.append("submodules %r, expected %r" % (got_sub, want_sub))
    if problems:
        return _fail(text=text, top=top, problems=problems[:6])
    return True


NTOP = 7


def _census(n0, n1, n2, m0, reopen, topsel, boost):
    n1, m0, topsel = pick(n1, 0, 3), pick(m0, 0, 3), pick(topsel, 0, NTOP)
    if THOROUGH:
        n2, reopen, boost = pick(n2, 0, 3), pick(reopen, 0, 2), (n1 + topsel) % 2
    else:
        n2, reopen, boost = (n0 + n1 + topsel) % 3, (n0 + m0 + topsel) % 2, (n1 + topsel) % 2
    with concrete():
        ok = check(n0, n1, n2, m0, reopen, topsel, boost, hollow=(n0 + n1 + m0 + topsel) % 2 if not reopen else 0)
    reached({"names": [POOL[n0], POOL[n1], POOL[n2], POOL[m0]], "reopen": reopen, "topsel": topsel} if (not ok or (n1 == 2 and topsel == 5)) else None)
    return ok


def c03_census_a(n1: int, n2: int, m0: int, reopen: int, topsel: int, boost: int) -> bool:
    """
    Namespaces N0::N1::N2 with names drawn from {a, b, ab} (equal / prefix relations occur; here N0 = a), a sibling
    namespace, an optionally re-opened namespace, a namespace holding only a nested namespace, every kind of entity
    in every scope; top module namespace = a prefix of the declared path (depth 0-3) or a path leaving it: exactly the
    entities inside the top namespace are exposed, once, under their names, in the submodule of their namespace;
    submodules created once and before use.
    pre: 0 <= n1 < 3 and 0 <= n2 < 3 and 0 <= m0 < 3 and 0 <= reopen <= 1 and 0 <= topsel < NTOP and 0 <= boost <= 1
    post: _
    """
    return _census(0, n1, n2, m0, reopen, topsel, boost)


def c03_census_b(n1: int, n2: int, m0: int, reopen: int, topsel: int, boost: int) -> bool:
    """
    As c03_census_a with N0 = b.
    pre: 0 <= n1 < 3 and 0 <= n2 < 3 and 0 <= m0 < 3 and 0 <= reopen <= 1 and 0 <= topsel < NTOP and 0 <= boost <= 1
    post: _
    """
    return _census(1, n1, n2, m0, reopen, topsel, boost)


def c03_census_ab(n1: int, n2: int, m0: int, reopen: int, topsel: int, boost: int) -> bool:
    """
    As c03_census_a with N0 = ab.
    pre: 0 <= n1 < 3 and 0 <= n2 < 3 and 0 <= m0 < 3 and 0 <= reopen <= 1 and 0 <= topsel < NTOP and 0 <= boost <= 1
    post: _
    """
    return _census(2, n1, n2, m0, reopen, topsel, boost)


def c03_script_ignore(top: int, ign: int, boost: int) -> bool:
    """
    scripts/pybind_wrap.py: for every --ignore form (absent, empty, one, two, a template instantiation whose C++
    name contains a comma) and every --top_module_namespaces value, the generated module is what the API gives
    for the same ignore list (nothing ignored is exposed, nothing else is dropped).
    pre: 0 <= top < 5 and 0 <= ign < 5 and 0 <= boost <= 1
    post: _
    """
    from harness import c16
    top, ign, boost = pick(top, 0, 5), pick(ign, 0, 5), pick(boost, 0, 2)
    with concrete():
        ok = c16.check_scripts(0, top, ign, boost, 0)
        if not ok:
            global LAST_FAILURE
            LAST_FAILURE = c16.LAST_FAILURE
    reached({"top": c16.TOPS[top], "ignore": c16.IGN[ign]})
    return ok


# ---------------------------------------------------------------- ignore lists: census + scope variables
IGN_TEXT = ("class G { G(); enum Lvl { L1, L2 }; void run() const; };\n"
            "namespace ns { class A { A(); enum Kind { K1 }; }; class AB { AB(); };\n"
            "  template<T = {double}, U = {ns::A}> class Pr { Pr(T t); enum Mode { M1, M2 }; U second() const; };\n"
            "  template<T> class Bx { Bx(); enum Flag { F1 }; };\n"
            "  typedef ns::Bx<std::pair<int, ns::A>> BxPair;\n"
            "  typedef ns::Pr<int, std::map<int, double>> PrMap;\n"
            "  class Fwd; typedef ns::Fwd<int, double> FwdInst;\n"
            "  void keep(); }\n")
# (python name, module var, exact C++ name, enums of the class)
IGN_CLASSES = [("G", "m_", "G", ["Lvl"]), ("A", "m_ns", "ns::A", ["Kind"]), ("AB", "m_ns", "ns::AB", []),
               ("PrDoubleA", "m_ns", "ns::Pr<double, ns::A>", ["Mode"]), ("BxPair", "m_ns", "ns::Bx<std::pair<int, ns::A>>", ["Flag"]),
               ("PrMap", "m_ns", "ns::Pr<int, std::map<int, double>>", ["Mode"]), ("FwdInst", "m_ns", "ns::Fwd<int,double>", [])]
NIC = len(IGN_CLASSES)


def spell(cpp, form):
    if form == 1:
        return cpp.replace(", ", ",")
    if form == 2:
        return cpp.replace(", ", " ,  ").replace("<", "< ")
    return cpp


def check_ignore(sel, form, boost):
    chosen = [c for i, c in enumerate(IGN_CLASSES) if sel >> i & 1]
    ignore = [spell(c[2], form) for c in chosen]
    body = pipe.pybind_body(IGN_TEXT, ignore=ignore or [''], boost=bool(boost))
    ents = readers.parse_pybind(body)
    problems = []
    declared = {"m_"}
    classes, enums = {}, []
    for e in ents:
        if e["ent"] == "submodule":
            declared.add(e["var"])
        elif e["ent"] == "class":
            classes[e["name"]] = e
            if e["module"] not in declared:
                problems.append("class %s registered in undeclared %s" % (e["name"], e["module"]))
            if e.get("instance"):
                declared.add(e["instance"])
        elif e["ent"] == "enum":
            enums.append(e)
            if e["module"] not in declared:
                problems.append("enum %s registered on %s, which is never declared (its class is ignored)" % (e["name"], e["module"]))
        elif e["ent"] == "other":
            problems.append("unrecognised statement %r" % e["stmt"][:80])
    for py, var, cpp, ens in IGN_CLASSES:
        listed_exact = cpp in ignore
        present = py in classes
        if listed_exact and present:
            problems.append("ignored class %s is still registered" % cpp)
        if not present and spell(cpp, form) not in ignore and cpp not in ignore:
            problems.append("class %s is dropped although the ignore list %r does not name it" % (cpp, ignore))
        if present and classes[py]["module"] != var:
            problems.append("class %s in %s, expected %s" % (py, classes[py]["module"], var))
        # the class and its enums go together (an ignored class's enums hang on a variable that does not exist)
        inst = classes[py].get("instance") if present else None
        got_enums = [e["name"] for e in enums if cpp + "::" in e["stmt"].split("(")[0]]
        if present and sorted(got_enums) != sorted(ens):
            problems.append("class %s registered with enums %r, declared %r" % (cpp, got_enums, ens))
        if not present and got_enums:
            problems.append("class %s is not registered but its enums %r are" % (cpp, got_enums))
    if not any(e["ent"] == "chain" and any(d.get("name") == "keep" for d in e["defs"]) for e in ents):
        problems.append("free function keep() lost")
    if problems:
        return _fail(ignore=ignore, boost=boost, problems=problems[:6])
    return True


def c03_ignore_census(sel: int, form: int, boost: int) -> bool:
    """
    Every subset of 7 classes (global, namespaced, with and without nested enums, two-argument template
    instantiations, typedef'd instantiations with nested template arguments, instantiated forward declaration) on
    the ignore list, spelled exactly / without blanks after commas / with extra blanks: a class named exactly is
    not registered; a class the list does not name is registered; a class and its nested enums are present or absent
    together; nothing is registered on a scope variable that is not declared.
    pre: 0 <= sel < 2 ** NIC and 0 <= form <= 2 and 0 <= boost <= 1
    post: _
    """
    sel = pick(sel, 0, 2 ** NIC)
    form = pick(form, 0, 3) if THOROUGH else sel % 3
    boost = pick(boost, 0, 2) if THOROUGH else (sel // 3) % 2
    with concrete():
        ok = check_ignore(sel, form, boost)
    reached({"sel": sel, "form": form} if (not ok or sel == 24) else None)
    return ok


def same_name_registered(layout, order, boost, where=0):
    """problems of the pybind registration of two same-named templates' typedef'd instantiations (c08_product.build_same_name)"""
    from harness import c08_product as P
    text, want = P.build_same_name(layout, order, where=where)
    problems = []
    try:
        ents = readers.parse_pybind(pipe.pybind_body(text, boost=bool(boost)))
    except Exception as ex:
        ents = []
        problems.append("raised %r" % ex)
    classes = [e for e in ents if e["ent"] == "class"]
    if not problems and sorted(e["name"] for e in classes) != sorted(want):
        problems.append("classes registered %r, declared %r" % ([e["name"] for e in classes], sorted(want)))
    for e in classes:
        w = want.get(e["name"])
        if w is None:
            continue
        defs = [d.get("name") for d in e["defs"] if d["kind"] in ("def", "def_static") and not str(d.get("name", "")).startswith("__") and d.get("name") not in ("serialize", "deserialize")]
        extra = ["Count"] if e["name"] == "BoxB" else []
        if e["targs"][0] != w[0] or sorted(defs) != sorted(w[1] + extra):
            problems.append("%s registered as %s with %r, its typedef names %s with %r" % (e["name"], e["targs"][0], defs, w[0], w[1] + extra))
    return text, problems


def c03_same_name_templates(layout: int, order: int, boost: int, where: int) -> bool:
    """
    Two same-named class templates in different namespaces, each with a typedef'd instantiation (typedefs in one block,
    at global scope or inside a namespace from which one root-qualified name could also be read relatively): the module
    registers exactly two classes, `BoxA` bound to the first template's C++ type with its members and `BoxB` to the
    second's, each once.
    pre: 0 <= layout < 5 and 0 <= order <= 1 and 0 <= boost <= 1 and 0 <= where <= 2
    post: _
    """
    layout, order, boost, where = pick(layout, 0, 5), pick(order, 0, 2), pick(boost, 0, 2), pick(where, 0, 3)
    with concrete():
        text, problems = same_name_registered(layout, order, boost, where)
        ok = not problems or _fail(text=text, problems=problems)
    reached({"layout": layout, "order": order, "where": where})
    return ok


def conds(tier):
    q = tier == "quick"
    t = (lambda x, y: x) if q else (lambda x, y: y)
    b = "N0 fixed; N1, sibling from a 3-name pool x 7 top-namespace choices%s" % (
        " x third level x re-opened (serialization derived)" if not q else "; third level / re-open / hollow / serialization derived")
    return [xh.Cond("harness.c03_census", "c03_script_ignore", t(200, 600), kind="shape-bounded", examples=["top=1, ign=4, boost=0", "top=0, ign=0, boost=1"],
                    bounds="5 --top_module_namespaces values x 5 --ignore forms x serialization"),
            xh.Cond("harness.c03_census", "c03_same_name_templates", t(120, 600), kind="shape-bounded", examples=["layout=0, order=0, boost=0, where=0", "layout=2, order=1, boost=1, where=1", "layout=1, order=0, boost=0, where=2"],
                    bounds="5 namespace layouts x 2 typedef orders x serialization x 3 places of the typedef block"),
            xh.Cond("harness.c03_census", "c03_ignore_census", t(300, 1200), kind="shape-bounded", examples=["sel=8, form=0, boost=0", "sel=8, form=1, boost=0", "sel=48, form=2, boost=1", "sel=127, form=0, boost=0", "sel=0, form=0, boost=1"],
                    bounds="all 128 subsets of 7 classes on the ignore list x %s" % ("3 spellings x serialization" if not q else "spelling and serialization derived"))] + [
        xh.Cond("harness.c03_census", f, t(420, 3600), kind="shape-bounded", path_timeout=90, examples=ex, bounds=b)
        for f, ex in (("c03_census_a", ["n1=0, n2=0, m0=1, reopen=1, topsel=2, boost=0", "n1=2, n2=0, m0=1, reopen=0, topsel=0, boost=0"]),
                      ("c03_census_b", ["n1=2, n2=0, m0=1, reopen=0, topsel=6, boost=0"]),
                      ("c03_census_ab", ["n1=0, n2=1, m0=0, reopen=1, topsel=5, boost=1"]))
    ]
