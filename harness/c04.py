"""C04 — every Python binding forwards to the declared C++ entity, faithfully (generator obligation).

Shape-bounded CrossHair harnesses: small ints select a declaration shape; the REAL pipeline
(parse -> instantiate -> PybindWrapper.wrap_file) runs on the rendered interface text; the emitted bindings
are read back from the generated text and compared with what the declaration says.
"""
import os
import re

from harness import pipe, readers
from harness.shapes import (T, itext, cpp, ARG_POOL, RET_POOL, mk_args, args_itext, ret_itext, PRELUDE)
from vlib.trace import reached, concrete, realize_int, pick
from vlib import xh

LAST_FAILURE = None
LAST_TEXT_BODY = (None, None)
NPOOL, NRET = len(ARG_POOL), len(RET_POOL)
ROLES = ("ctor", "method", "method_nc", "static", "function")


def _fail(**kw):
    global LAST_FAILURE
    LAST_FAILURE = {k: str(v)[:600] for k, v in kw.items()}
    return False


def subst(ty, name, inst):
    """descriptor-level substitution of the placeholder type `name` by the concrete descriptor `inst`"""
    const, nss, nm, args, suf = ty
    args = tuple(subst(a, name, inst) for a in args)
    if not nss and nm == name:
        return (const, inst[1], inst[2], inst[3], suf)
    return (const, nss, nm, args, suf)


def templ(ty, on):
    """when `on`, occurrences of ns::Other become the template parameter T (so the class template is exercised)"""
    if not on:
        return ty
    const, nss, nm, args, suf = ty
    args = tuple(templ(a, on) for a in args)
    if nss == ("ns",) and nm == "Other":
        return (const, (), "T", args, suf)
    return (const, nss, nm, args, suf)


def expected_callable(role, cls_cpp, ns_prefix, name, pyname, cppname, args, ret):
    e = {"pyargs": [(n, d) for _t, n, d in args]}
    if role == "ctor":
        e.update(kind="init", types=[cpp(t) for t, _n, _d in args])
        return e
    params = [(cpp(t), n) for t, n, _d in args]
    e.update(name=pyname, call_args=[n for _t, n, _d in args], returns=ret[0] != "void")
    if role in ("method", "method_nc"):
        e.update(kind="def", params=[(cls_cpp + "*", "self")] + params, callee="self->" + cppname)
    elif role == "static":
        e.update(kind="def_static", params=params, callee=cls_cpp + "::" + cppname)
    else:
        e.update(kind="def", params=params, callee=ns_prefix + "::" + cppname)
    return e


def compare(defn, exp):
    for k, v in exp.items():
        if defn.get(k) != v:
            return "%s: got %r want %r" % (k, defn.get(k), v)
    return None


def check_callable(role, n, k, t0, t1, t2, r, flavour, nsdepth):
    """one declaration shape through the real pipeline; returns True or records LAST_FAILURE"""
    tis = [t0, t1, t2][:n]
    tmpl_class = flavour == 1
    tmpl_method = flavour == 2 and role in ("method", "method_nc", "static", "function")
    args = [(templ(t, tmpl_class), nm, d if not (tmpl_class and d and "Other" in d) else None) for t, nm, d in mk_args(tis, k)]
    args = mk_fix_trailing(args)
    ret = RET_POOL[r % NRET]
    ret_t = tuple([ret[0]] + [templ(x, tmpl_class) for x in ret[1:]])
    if tmpl_method:
        args = [(T("U", const=True, suf="&"), "u", None)] + args
    nss = ("top", "mid")[:nsdepth]
    name = "doIt"
    sig = "%s(%s)" % (name if role != "ctor" else "Cls", args_itext(args))
    tm = "template<U = {ns::Other, double}> " if tmpl_method else ""
    if role == "ctor":
        member = "%s;" % sig
    elif role == "method":
        member = "%s%s %s const;" % (tm, ret_itext(ret_t), sig)
    elif role == "method_nc":
        member = "%s%s %s;" % (tm, ret_itext(ret_t), sig)
    elif role == "static":
        member = "%sstatic %s %s;" % (tm, ret_itext(ret_t), sig)
    else:
        member = None
    head = "template<T = {ns::Other, double}> " if tmpl_class else ""
    if role == "function":
        # free function templates cannot sit in a class template: flavour 1 makes the function itself a template over T
        fh = "template<T = {ns::Other, double}> " if tmpl_class else tm
        decl = "%s%s %s;" % (fh, ret_itext(ret_t), sig)
    else:
        decl = "%sclass Cls { %s };" % (head, member)
    text = PRELUDE + "".join("namespace %s {\n" % x for x in nss) + decl + "\n" + "}\n" * len(nss)
    body = pipe.pybind_body(text)
    global LAST_TEXT_BODY
    LAST_TEXT_BODY = (text, body)
    ents = readers.parse_pybind(body)
    ns_prefix = "::".join(nss)
    insts = [T("Other", ns=("ns",)), T("double")] if (tmpl_class or tmpl_method) else [None]
    suffix = {None: "", "Other": "Other", "double": "Double"}
    problems = []
    for inst in insts:
        iname = inst[2] if inst else None
        sub = (lambda ty: subst(subst(ty, "T", inst), "U", inst)) if inst else (lambda ty: ty)
        a2 = [(sub(t), nm, d) for t, nm, d in args]
        r2 = tuple([ret_t[0]] + [sub(x) for x in ret_t[1:]])
        if role == "function":
            pyname = name + (suffix[iname] if (tmpl_class or tmpl_method) else "")
            cppname = name + ("<%s>" % cpp(inst).replace(" ", "") if (tmpl_class or tmpl_method) else "")
            chains = [d for e in ents if e["ent"] == "chain" and e["target"] == "m_" + "_".join(nss) for d in e["defs"]]
            cand = [d for d in chains if d.get("name") == pyname]
            exp = expected_callable(role, None, ns_prefix, name, pyname, cppname, a2, r2)
            if len(cand) != 1:
                problems.append("function %s: %d bindings named %s" % (name, len(cand), pyname))
            else:
                c = compare(cand[0], exp)
                if c:
                    problems.append("function %s: %s" % (pyname, c))
            continue
        cls_name = "Cls" + (suffix[iname] if tmpl_class else "")
        cls_cpp = "::".join(nss + ("Cls",)) + ("<%s>" % cpp(inst) if tmpl_class else "")
        classes = [e for e in ents if e["ent"] == "class" and e["name"] == cls_name]
        if len(classes) != 1:
            problems.append("%d classes named %s" % (len(classes), cls_name))
            continue
        ce = classes[0]
        if ce["targs"] != [cls_cpp, "std::shared_ptr<%s>" % cls_cpp] or ce["module"] != "m_" + "_".join(nss):
            problems.append("class registration %r in %s" % (ce["targs"], ce["module"]))
        minsts = [None]
        if tmpl_method:
            minsts = [T("Other", ns=("ns",)), T("double")]
            if inst is not insts[0]:
                continue                      # member-template instantiations are all inside the one (non-template) class
        for mi in minsts:
            if tmpl_method:
                a3 = [(subst(t, "U", mi), nm, d) for t, nm, d in args]
                r3 = tuple([ret_t[0]] + [subst(x, "U", mi) for x in ret_t[1:]])
                pyname, cppname = name + suffix[mi[2]], name + "<%s>" % cpp(mi)
            else:
                a3, r3, pyname, cppname = a2, r2, name, name
            exp = expected_callable(role, cls_cpp, ns_prefix, name, pyname, cppname, a3, r3)
            if role == "ctor":
                cand = [d for d in ce["defs"] if d["kind"] == "init"]
            else:
                cand = [d for d in ce["defs"] if d.get("name") == pyname]
            if len(cand) != 1:
                problems.append("%s %s: %d bindings" % (role, pyname, len(cand)))
                continue
            c = compare(cand[0], exp)
            if c:
                problems.append("%s %s: %s" % (role, pyname, c))
        extra = [d for d in ce["defs"] if d["kind"] not in ("init",) and d.get("name") not in
                 ([name + suffix[m[2]] for m in minsts] if tmpl_method else [name])]
        if role == "ctor":
            extra = [d for d in ce["defs"] if d["kind"] != "init"]
        if extra:
            problems.append("undeclared bindings on %s: %r" % (cls_name, [d.get("name", d["kind"]) for d in extra]))
    if problems:
        return _fail(text=text, problems=problems, body=body)
    return True


def mk_fix_trailing(args):
    seen_nodefault, fixed = False, []
    for ty, nm, d in reversed(args):
        if d is None:
            seen_nodefault = True
        fixed.append((ty, nm, None if seen_nodefault else d))
    return list(reversed(fixed))


THOROUGH = os.environ.get("VERIF_TIER", "quick") == "thorough"
T1MAX = 1                                  # second/third argument types are derived from the first
RMAX = 4 if THOROUGH else 1                # number of enumerated return-shape offsets (the shape itself = offset*3 + derived)
NSMAX = 3 if THOROUGH else 1               # quick: the namespace depth is derived from the other choices
VMAX = 2 if THOROUGH else 1


def _callable(role, n, k, t0, t1, r, flavour, nsdepth, exact=False):
    n, k, t0, t1, r, flavour, nsdepth = pick(n, 0, 4), pick(k, 0, 4), pick(t0, 0, NPOOL), pick(t1, 0, NPOOL), pick(r, 0, NRET), pick(flavour, 0, 3), pick(nsdepth, 0, 3)
    with concrete():
        t1e = (t0 * 4 + 5 + t1) % NPOOL
        t2e = (t0 * 7 + 2 + t1 * 3) % NPOOL
        if not exact:
            r = (r * 3 + t0 + n + k) % NRET
        if not THOROUGH and not exact:
            nsdepth = (nsdepth + t0 + n) % 3
        ok = check_callable(ROLES[role], n, k, t0, t1e, t2e, r, flavour, nsdepth)
    reached({"role": ROLES[role], "n": n, "k": k, "t0": t0, "ret": r, "flavour": flavour, "nsdepth": nsdepth} if not ok or (t0 == 3 and n == 2) else None)
    return ok


def c04_ctor(n: int, k: int, t0: int, t1: int, flavour: int, nsdepth: int) -> bool:
    """
    Constructors: py::init<declared C++ types in order> with keyword names and defaults on the declared parameters.
    pre: 0 <= n <= 3 and 0 <= k <= n and 0 <= t0 < NPOOL and 0 <= t1 < T1MAX and 0 <= flavour <= 1 and 0 <= nsdepth < NSMAX
    post: _
    """
    return _callable(0, n, k, t0, t1, 0, flavour, nsdepth)


def c04_method(n: int, k: int, t0: int, t1: int, r: int, flavour: int) -> bool:
    """
    Const instance methods: instance call self->name(args in order), declared types, keyword names, defaults, return iff non-void.
    pre: 0 <= n <= 3 and 0 <= k <= n and 0 <= t0 < NPOOL and 0 <= t1 < T1MAX and 0 <= r < RMAX and 0 <= flavour <= 2
    post: _
    """
    return _callable(1, n, k, t0, t1, r, flavour, 1)


def c04_method_shapes(n: int, r: int, nc: int, flavour: int, nsdepth: int) -> bool:
    """
    Methods (const and non-const) x every return shape x namespace depth.
    pre: 0 <= n <= 1 and 0 <= r < NRET and 0 <= nc <= 1 and 0 <= flavour <= 2 and 0 <= nsdepth <= 2
    post: _
    """
    return _callable(1 + pick(nc, 0, 2), n, 0, 3 + pick(n, 0, 3), 0, r, flavour, nsdepth, exact=True)


def c04_static(n: int, k: int, t0: int, t1: int, r: int, flavour: int) -> bool:
    """
    Static methods: def_static, class-level call Cls::name(args).
    pre: 0 <= n <= 3 and 0 <= k <= n and 0 <= t0 < NPOOL and 0 <= t1 < T1MAX and 0 <= r < RMAX and 0 <= flavour <= 2
    post: _
    """
    return _callable(3, n, k, t0, t1, r, flavour, 1)


def c04_function(n: int, k: int, t0: int, t1: int, r: int, flavour: int, nsdepth: int) -> bool:
    """
    Free functions: module-level def calling ns::name (explicit template arguments for instantiations).
    pre: 0 <= n <= 3 and 0 <= k <= n and 0 <= t0 < NPOOL and 0 <= t1 < T1MAX and 0 <= r < (2 if THOROUGH else 1) and 0 <= flavour <= 2 and 0 <= nsdepth < NSMAX
    post: _
    """
    return _callable(4, n, k, t0, t1, r, flavour, nsdepth)


# ---------------------------------------------------------------- class-level facts: base, properties, enums, operators
BASES = [None, ("Base", ()), ("Base", ("other",)), ("TBase", ("ns",), "ns::Other"),
         ("QBase", ("ns",), "const ns::Other&"), ("QBase", ("ns",), "double*")]          # 4, 5: qualifiers inside the base's template arguments


def check_class(base, nprops, nenums, virt, tmpl, ops, nsdepth):
    nss = ("top", "mid")[:nsdepth]
    b = BASES[base]
    btxt = ""
    bcpp = None
    if b:
        bq = "::".join(b[1] + (b[0],))
        if len(b) == 3:
            btxt, bcpp = " : %s<%s>" % (bq, "T" if (tmpl and base < 4) else b[2]), None
        else:
            btxt, bcpp = " : " + bq, bq
    props = [("int", "count", False), ("const ns::Other", "fixed", True), ("T" if tmpl else "double", "val", False)][:nprops]
    enums = [("Kind", ["A", "B"]), ("Mode", ["X"])][:nenums]
    optxt = ["", "Cls operator+(const Cls& o) const; Cls operator-() const;", "double operator[](size_t i) const; Cls operator==(const Cls& o) const;"][ops]
    if tmpl and ops == 1:
        optxt = "This operator+(const This& o) const; This operator-() const;"
    if tmpl and ops == 2:
        optxt = "double operator[](size_t i) const; This operator==(const This& o) const;"
    members = "".join("%s %s; " % (t, n) for t, n, _c in props) + "".join("enum %s { %s }; " % (n, ", ".join(v)) for n, v in enums) + optxt
    # tmpl: 0 plain, 1 enumerated instantiations, 2 typedef in the template's namespace, 3 typedef in a namespace nested below it
    head = ["", "template<T = {ns::Other, double}> ", "template<T> ", "template<T> "][tmpl]
    td = "typedef %sCls<ns::Other> ClsOther;" % "".join(x + "::" for x in nss)
    after = ["", "", td + "\n", "namespace sub { %s }\n" % td][tmpl]
    text = (PRELUDE + "".join("namespace %s {\n" % x for x in nss) +
            "%s%sclass Cls%s { Cls(); %s };\n" % (head, "virtual " if virt else "", btxt, members) + after +
            "}\n" * len(nss))
    body = pipe.pybind_body(text)
    ents = readers.parse_pybind(body)
    problems = []
    for inst in ([None], ["ns::Other", "double"], ["ns::Other"], ["ns::Other"])[tmpl]:
        cname = "Cls" + ({"ns::Other": "Other", "double": "Double", None: ""}[inst])
        ccpp = "::".join(nss + ("Cls",)) + ("<%s>" % inst if tmpl else "")
        ce = [e for e in ents if e["ent"] == "class" and e["name"] == cname]
        if len(ce) != 1:
            problems.append("%d classes %s" % (len(ce), cname)); continue
        ce = ce[0]
        want_mod = "m_" + "_".join(nss)            # (a typedef in a nested namespace registers in the template's module: not judged here)
        if tmpl != 3 and ce["module"] != want_mod:
            problems.append("%s registered in %s, expected %s" % (cname, ce["module"], want_mod))
        if b and len(b) == 3:
            barg = (inst if (tmpl and base < 4) else b[2])
            if barg.endswith("*"):
                barg = "std::shared_ptr<%s>" % barg[:-1]
            bexp = "::".join(b[1] + (b[0],)) + "<%s>" % barg
        else:
            bexp = bcpp
        want = [ccpp] + ([bexp] if bexp else []) + ["std::shared_ptr<%s>" % ccpp]
        if ce["targs"] != want:
            problems.append("%s registered as %r, declared %r" % (cname, ce["targs"], want))
        wantdefs = [("init", None)]
        for t, n, c in props:
            wantdefs.append(("def_readonly" if c else "def_readwrite", n))
        got = [(d["kind"], d.get("name")) for d in ce["defs"] if d["kind"] in ("init", "def_readonly", "def_readwrite")]
        if got != wantdefs:
            problems.append("%s members %r want %r" % (cname, got, wantdefs))
        for d in ce["defs"]:
            if d["kind"] in ("def_readonly", "def_readwrite") and d.get("target") != "&%s::%s" % (ccpp, d["name"]):
                problems.append("property target %r" % d.get("target"))
        opexp = {0: [], 1: [("expr", "py::self + py::self"), ("expr", "-py::self")],
                 2: [("target", "&%s::operator[]" % ccpp, "__getitem__"), ("expr", "py::self == py::self")]}[ops]
        opgot = [d for d in ce["defs"] if d["kind"] == "def" and ("expr" in d or d.get("name") in ("__getitem__", "__call__"))]
        if len(opgot) != len(opexp):
            problems.append("operators: %d bindings, declared %d" % (len(opgot), len(opexp)))
        else:
            for d, e in zip(opgot, opexp):
                if e[0] == "expr" and d.get("expr") != e[1]:
                    problems.append("operator %r want %r" % (d.get("expr"), e[1]))
                if e[0] == "target" and (d.get("target") != e[1] or d.get("name") != e[2]):
                    problems.append("operator %r want %r" % (d, e))
        en = [e for e in ents if e["ent"] == "enum" and e["cpp"].startswith(ccpp + "::")]
        if [(e["name"], [v[0].strip('"') for v in e["values"]]) for e in en] != [(n, v) for n, v in enums]:
            problems.append("class enums %r" % [(e["name"], e["values"]) for e in en])
        for e, (n, vals) in zip(en, enums):
            if e["cpp"] != ccpp + "::" + n or [v[1] for v in e["values"]] != ["%s::%s::%s" % (ccpp, n, x) for x in vals]:
                problems.append("enum %s maps to %r %r" % (n, e["cpp"], e["values"]))
            if e["module"] != ce.get("instance"):
                problems.append("enum %s placed in %r, class instance is %r" % (n, e["module"], ce.get("instance")))
    if problems:
        return _fail(text=text, problems=problems, body=body)
    return True


def c04_class(base: int, nprops: int, nenums: int, virt: int, tmpl: int, ops: int, nsdepth: int) -> bool:
    """
    Class registration: declared base, properties writable unless const, class enums / enumerators, operators.
    pre: 0 <= base < 4 and 0 <= nprops <= 3 and 0 <= nenums <= 2 and 0 <= virt < VMAX and 0 <= tmpl <= 1 and 0 <= ops <= 2 and 0 <= nsdepth < NSMAX
    post: _
    """
    base, nprops, nenums, virt, tmpl, ops, nsdepth = pick(base, 0, 4), pick(nprops, 0, 4), pick(nenums, 0, 3), pick(virt, 0, 2), pick(tmpl, 0, 2), pick(ops, 0, 3), pick(nsdepth, 0, 3)
    with concrete():
        if not THOROUGH:
            virt, nsdepth = (base + nprops) % 2, (base + nenums + ops) % 3
        ok = check_class(base, nprops, nenums, virt, tmpl, ops, nsdepth)
    reached({"base": base, "nprops": nprops, "nenums": nenums, "tmpl": tmpl, "ops": ops} if (not ok or (base == 3 and nenums == 1)) else None)
    return ok


def c04_class_typedef(base: int, nprops: int, nenums: int, place: int, ops: int, nsdepth: int) -> bool:
    """
    As c04_class for a class template instantiated by a typedef written in the template's namespace or in a namespace
    nested below it (template at global scope included): the registration, `&Class::member` targets, enums and
    enumerators name the TEMPLATE's namespace.
    pre: 0 <= base < 4 and 0 <= nprops <= 3 and 0 <= nenums <= 2 and 0 <= place <= 1 and 0 <= ops <= 2 and 0 <= nsdepth <= 2
    post: _
    """
    base, nenums, place, ops, nsdepth = pick(base, 0, 4), pick(nenums, 0, 3), pick(place, 0, 2), pick(ops, 0, 3), pick(nsdepth, 0, 3)
    nprops = pick(nprops, 0, 4) if THOROUGH else (base + ops + nsdepth) % 4
    with concrete():
        ok = check_class(base, nprops, nenums, (base + nprops) % 2, 2 + place, ops, nsdepth)
    reached({"base": base, "nenums": nenums, "place": place, "ops": ops, "nsdepth": nsdepth} if (not ok or (base == 3 and nenums == 1 and ops == 2)) else None)
    return ok


def c04_kf_parent_qualifiers(which: int) -> bool:
    """
    Witness replay for known finding C04-parent-arg-qualifiers (const / & / * inside the template arguments of a base class).
    pre: 0 <= which <= 1
    post: _
    """
    which = pick(which, 0, 2)
    with concrete():
        ok = check_class(4 + which, 0, 0, 0, 0, 0, 1)
    reached()
    return ok


def subst_needed(t):
    const, nss, name, args, suf = t
    return (name == "This" and not nss) or any(subst_needed(x) for x in args)


def c04_all_type_spellings(kind: int, r: int, a: int, role: int) -> bool:
    """
    Every type expression of the small algebra of C01 (128 leaves; 48 templated roots over them) as the first parameter
    and as the return type of a method / static method / free function: the wrapper lambda declares the parameter with
    the C++ spelling of the declared type (`*` = std::shared_ptr, `@` = raw pointer, `&`, const kept, template arguments
    spelled the same way at every depth) and names it in py::arg.
    pre: 0 <= kind <= 1 and 0 <= r < 48 and 0 <= a < 128 and 0 <= role <= 2
    pre: kind == 0 or r % (4 if THOROUGH else 16) == a % (4 if THOROUGH else 16)
    post: _
    """
    from harness import c01_tree as A
    from harness.shapes import cpp as ref_cpp, itext
    kind, a = pick(kind, 0, 2), pick(a, 0, A.NA_LEAF)
    r = pick(r, 0, A.NA_ROOT) if kind else 0            # (a leaf has no root: keep r concrete)
    role = pick(role, 0, 3) if THOROUGH else (a + r) % 3
    ok = True
    with concrete():
        ty = A.a_leaf(a) if kind == 0 else A.a_root(r, [A.a_leaf(a), A.a_leaf((a * 7 + r) % A.NA_LEAF)][:1 + (a + r) % 2])
        if A.a_allowed(ty, "argument") and not (subst_needed(ty) and role == 2):          # `This` means nothing in a free function
            # a look-alike second parameter: same outer type, the (first) inner qualifier changed
            def twin(t):
                const, nss, name, args, suf = t
                if args:
                    return (const, nss, name, (twin(args[0]),) + tuple(args[1:]), suf)
                return (not const, nss, name, args, {"": "*", "*": "", "&": "", "@": "*"}[suf])
            ty2 = twin(ty)
            decl = ["class Cls { Cls(); void doIt(%s a, %s b, int z) const; };", "class Cls { Cls(); static void doIt(%s a, %s b, int z); };", "void doIt(%s a, %s b, int z);"][role] % (itext(ty), itext(ty2))
            text = PRELUDE + "namespace top { " + decl + " }"
            try:
                body = pipe.pybind_body(text)
            except Exception as ex:
                body = "raised %r" % ex
            def subst_this(t):             # only the bare name `This` designates the class; `a::This` is some type called This
                const, nss, name, args, suf = t
                if name == "This" and not nss:
                    return (const, ("top",), "Cls", (), suf)
                return (const, nss, name, tuple(subst_this(x) for x in args), suf)
            want = ref_cpp(subst_this(ty))
            lam = re.search(r"\[\]\((.*?)\)\{", body)
            def split_params(txt):            # top-level commas only: template argument lists nest with < >
                out, depth, cur = [], 0, ""
                for ch in txt:
                    depth += ch in "<([{"
                    depth -= ch in ">)]}"
                    if ch == "," and depth == 0:
                        out.append(cur.strip()); cur = ""
                    else:
                        cur += ch
                return out + ([cur.strip()] if cur.strip() else [])
            params = split_params(lam.group(1)) if lam else []
            off = 1 if role == 0 else 0
            got = params[off].rsplit(" ", 1)[0].strip() if len(params) > off else None
            got2 = params[off + 1].rsplit(" ", 1)[0].strip() if len(params) > off + 1 else None
            if got != want:
                ok = _fail(text=text, parameter=got, declared=want, body=body[-400:])
            elif got2 != ref_cpp(subst_this(ty2)):
                ok = _fail(text=text, second_parameter=got2, declared=ref_cpp(subst_this(ty2)), body=body[-400:])
            elif 'py::arg("a"), py::arg("b"), py::arg("z")' not in body:
                ok = _fail(text=text, problem="keyword arguments", body=body[-300:])
    reached({"kind": kind, "a": a, "r": r, "role": role} if not ok else None)
    return ok


VERBATIM_DEFAULTS = ['"This: "', '"T"', "'T'", '"a This b, T"', 'Outer::This', 'ns::T', 'std::vector<string>{"T", "This"}', 'opts.T', 'Tolerance(T_MAX)', '"U and T and This"',
                     'TOL', 'MAX_U', 'kU', 'Traits::one()', 'xUx + T_U', "'U'", 'sizeof(UT)', 'Thiss::make(Uu)']


def c04_default_verbatim(d: int, flavour: int, role: int) -> bool:
    """
    Default-value text that merely MENTIONS a template parameter's spelling or `This` — inside string / character
    literals, as a member or namespace-qualified name, inside a longer identifier — reaches `py::arg(..) = ...` exactly
    as written, in plain and templated classes, member templates and function templates.
    pre: 0 <= d < len(VERBATIM_DEFAULTS) and 0 <= flavour <= 3 and 0 <= role <= 3
    post: _
    """
    d, flavour, role = pick(d, 0, len(VERBATIM_DEFAULTS)), pick(flavour, 0, 4), pick(role, 0, 4)
    with concrete():
        dv = VERBATIM_DEFAULTS[d]
        cls_t = "template<T = {double}> " if flavour in (1, 3) else ""
        mem_t = "template<U = {int}> " if flavour in (2, 3) else ""          # 3: class parameter T and member parameter U both in scope
        first = "const T& x" if flavour == 1 else ("const U& x" if flavour in (2, 3) else "double x")
        sig = "%s, const string& label = %s, int n = 3" % (first, dv)
        if role == 3:
            decl = "%svoid doIt(%s);" % ("template<T = {double}> " if flavour == 1 else ("template<T = {double}, U = {int}> " if flavour == 3 else mem_t), sig)
            text = PRELUDE + "namespace top { " + decl + " }"
        else:
            member = ["%sCls(%s);", "%svoid doIt(%s) const;", "%sstatic void doIt(%s);"][role] % (mem_t, sig)
            text = PRELUDE + "namespace top { %sclass Cls { %s }; }" % (cls_t, member)
        try:
            body = pipe.pybind_body(text)
        except Exception as ex:
            body = "raised %r" % ex
        want = 'py::arg("label") = %s, py::arg("n") = 3' % dv
        ok = want in body or _fail(text=text, declared_default=dv, body=body[-500:])
    reached({"default": VERBATIM_DEFAULTS[d], "flavour": flavour, "role": role})
    return ok


SCOPED_USES = [("T::Value", "ns::Traits::Value"), ("const T::Config::Options&", "const ns::Traits::Config::Options&"), ("T::A::B::C*", "std::shared_ptr<ns::Traits::A::B::C>"),
               ("std::vector<T::Config::Options>", "std::vector<ns::Traits::Config::Options>"), ("T::Config::Options@", "ns::Traits::Config::Options*"),
               ("std::map<T::Key, T::Config::Value>", "std::map<ns::Traits::Key, ns::Traits::Config::Value>")]


def c04_scoped_parameter_types(use: int, role: int, level: int) -> bool:
    """
    A parameter type scoped one to three levels below a template parameter (`T::Value`, `T::Config::Options`, `T::A::B::C`),
    bare or inside template arguments, with a class-level, member-level or function-level parameter T = ns::Traits: the
    lambda declares it with every scope component kept (`ns::Traits::Config::Options`).
    pre: 0 <= use < len(SCOPED_USES) and 0 <= role <= 3 and 0 <= level <= 1
    post: _
    """
    use, role, level = pick(use, 0, len(SCOPED_USES)), pick(role, 0, 4), pick(level, 0, 2)
    with concrete():
        written, want = SCOPED_USES[use]
        head = "template<T = {ns::Traits}> "
        sig = "%s opts, int z" % written
        if role == 3:
            text = PRELUDE + "namespace top { %sdouble doIt(%s); }" % (head, sig)
        else:
            member = ["Cls(%s);", "void doIt(%s) const;", "static void doIt(%s);"][role] % sig
            if level == 0:
                text = PRELUDE + "namespace top { %sclass Cls { %s }; }" % (head, member)
            else:
                text = PRELUDE + "namespace top { class Cls { %s%s }; }" % (head, member)
        try:
            body = pipe.pybind_body(text)
        except Exception as ex:
            body = "raised %r" % ex
        ok = (want + " opts") in body or (role == 0 and ("py::init<%s, int>" % want) in body) or _fail(text=text, declared=want, body=body[-400:])
    reached({"use": SCOPED_USES[use][0], "role": role, "level": level})
    return ok


def c04_argname(name: str) -> bool:
    """
    Argument names are copied verbatim into the lambda parameter, the call and py::arg (one symbolic spelling).
    pre: pipe.is_ident(name, 1, 6) and name != "self"
    post: _
    """
    import gtwrap.interface_parser as parser
    import gtwrap.template_instantiator as ti
    from gtwrap.pybind_wrapper import PybindWrapper
    with concrete():
        mod = parser.Module.parseString("class A { void f(int q, double z = 1.5) const; };")
    cls = mod.content[0]
    cls.methods[0].args.list()[0].name = name
    w = PybindWrapper(module_name="m", top_module_namespaces=[''], ignore_classes=[''], module_template=pipe.PYBIND_TPL)
    out = w.wrap_methods(cls.methods, "A")
    want = '\n        .def("f",[](A* self, int ' + name + ', double z){ self->f(' + name + ', z);}, py::arg("' + name + '"), py::arg("z") = 1.5)'
    ok = out == want
    if not ok:
        with concrete():
            _fail(name=name, got=out, want=want)
    reached()
    return ok


def c04_same_name_typedefs(layout: int, order: int, where: int) -> bool:
    """
    Two same-named class templates in different namespaces, instantiated by typedefs written at global scope or inside
    a namespace from which one of the root-qualified names could also be read relatively: each Python class is
    registered for the C++ type its typedef names from the root, and its constructor / method lambdas forward to that
    type's own members.
    pre: 0 <= layout < 5 and 0 <= order <= 1 and 0 <= where <= 2
    post: _
    """
    from harness import c03_census
    layout, order, where = pick(layout, 0, 5), pick(order, 0, 2), pick(where, 0, 3)
    with concrete():
        text, problems = c03_census.same_name_registered(layout, order, 0, where)
        if not problems:
            body = pipe.pybind_body(text)
            from harness import c08_product as P
            _t, want = P.build_same_name(layout, order, where=where)
            for e in readers.parse_pybind(body):
                if e["ent"] != "class" or e["name"] not in want:
                    continue
                cpp = want[e["name"]][0]
                for d in e["defs"]:
                    if d["kind"] == "def" and d.get("params") and d["params"][0][1] == "self" and d["params"][0][0].replace(" ", "") != (cpp + "*").replace(" ", ""):
                        problems.append("%s.%s: self is %r, the class is %s" % (e["name"], d["name"], d["params"][0][0], cpp))
                    if d["kind"] == "def_static" and str(d.get("callee", "")).replace(" ", "") != (cpp + "::" + str(d.get("name"))).replace(" ", ""):
                        problems.append("%s.%s does not call %s::%s" % (e["name"], d.get("name"), cpp, d.get("name")))
        ok = not problems or _fail(text=text, problems=problems)
    reached({"layout": layout, "order": order, "where": where})
    return ok


MT_INSTS = ["double", "ns::Other", "ns::Cam<ns::Other>", "ns::Cam<double>", "std::vector<ns::Other>", "ns::Cam<ns::Cam<ns::Other>>"]
MT_PRELUDE = "namespace ns { class Other { Other(); }; template<C> class Cam { Cam(); }; }\n"


def c04_member_template_arguments(a: int, b: int, role: int) -> bool:
    """
    A member template (method, static method) or function template instantiated with types that are themselves template
    instantiations: each binding forwards to `name<ARG>` with ARG spelled as the C++ type that was listed (`ns::Cam<ns::Other>`),
    not as the name of its wrapper class; one binding per listed argument, in order.
    pre: 0 <= a < len(MT_INSTS) and 0 <= b < len(MT_INSTS) and a != b and 0 <= role <= 2
    post: _
    """
    a, b, role = pick(a, 0, len(MT_INSTS)), pick(b, 0, len(MT_INSTS)), pick(role, 0, 3)
    with concrete():
        lst = [MT_INSTS[a], MT_INSTS[b]]
        tm = "template<U = {%s}> " % ", ".join(lst)
        decl = ["class Cls { Cls(); %sdouble doIt(const U& u, int z) const; };", "class Cls { Cls(); %sstatic double doIt(const U& u, int z); };", "%sdouble doIt(const U& u, int z);"][role] % tm
        text = MT_PRELUDE + "namespace top { " + decl + " }"
        problems = []
        try:
            body = pipe.pybind_body(text)
            sq = body.replace(" ", "")
            for ty in lst:
                callee = ["self->doIt<%s>(u,z)", "top::Cls::doIt<%s>(u,z)", "top::doIt<%s>(u,z)"][role] % ty
                if sq.count(callee.replace(" ", "")) != 1:
                    problems.append("no binding (or more than one) forwards to %s" % callee)
                if sq.count("const%s&u" % ty.replace(" ", "")) < 1:
                    problems.append("no binding takes `const %s& u`" % ty)
            if sq.count("doIt<") != 2:
                problems.append("%d calls of doIt<...>, 2 instantiations listed" % sq.count("doIt<"))
        except Exception as ex:
            problems.append("raised %r" % ex)
        ok = not problems or _fail(text=text, problems=problems)
    reached({"a": a, "b": b, "role": role})
    return ok


def conds(tier):
    q = tier == "quick"
    t = (lambda a, b: a) if q else (lambda a, b: b)
    M = "harness.c04"
    sb = "shape-bounded"
    return [
        xh.Cond(M, "c04_same_name_typedefs", t(120, 600), kind=sb, examples=["layout=1, order=0, where=1", "layout=2, order=1, where=1", "layout=4, order=0, where=2", "layout=0, order=0, where=0"],
                bounds="5 namespace layouts of two same-named templates x 2 typedef orders x 3 places of the typedef block"),
        xh.Cond(M, "c04_ctor", t(300, 2400), path_timeout=60, kind=sb, examples=["n=2, k=1, t0=3, t1=0, flavour=0, nsdepth=1", "n=3, k=2, t0=4, t1=0, flavour=1, nsdepth=0"],
                bounds="0-3 args x every default count x %d first-argument types (2nd/3rd derived) x class template on/off%s" % (NPOOL, " x namespace depth 0-2" if not q else "; namespace depth derived")),
        xh.Cond(M, "c04_method", t(300, 2400), path_timeout=60, kind=sb, examples=["n=2, k=1, t0=2, t1=0, r=3, flavour=0", "n=1, k=0, t0=5, t1=0, r=5, flavour=2"],
                bounds="0-3 args x every default count x %d first-argument types (2nd/3rd derived) x plain / class template / member template%s" % (NPOOL, " x 4 return-shape offsets" if not q else "; return shape derived")),
        xh.Cond(M, "c04_method_shapes", t(300, 1200), path_timeout=60, kind=sb, examples=["n=1, r=5, nc=1, flavour=1, nsdepth=2"],
                bounds="0-1 args x %d return shapes x const/non-const x 3 template flavours x namespace depth 0-2" % NRET),
        xh.Cond(M, "c04_member_template_arguments", t(240, 600), path_timeout=60, kind=sb, examples=["a=0, b=2, role=1", "a=2, b=1, role=0", "a=5, b=4, role=2"],
                bounds="%d ordered pairs of listed instantiations (plain, namespaced, templated, nested templated, std::vector) x method / static method / function template" % (len(MT_INSTS) * (len(MT_INSTS) - 1))),
        xh.Cond(M, "c04_static", t(300, 2400), path_timeout=60, kind=sb, examples=["n=2, k=2, t0=0, t1=0, r=4, flavour=0", "n=1, k=0, t0=3, t1=0, r=3, flavour=1"],
                bounds="as c04_method for static methods"),
        xh.Cond(M, "c04_function", t(300, 2400), path_timeout=60, kind=sb, examples=["n=2, k=1, t0=1, t1=0, r=2, flavour=0, nsdepth=0", "n=1, k=0, t0=3, t1=0, r=3, flavour=1, nsdepth=2"],
                bounds="as c04_method for free functions (2 return-shape offsets in thorough), namespace depth 0-2 (global scope included%s)" % ("" if not q else "; derived")),
        xh.Cond(M, "c04_class", t(300, 1500), path_timeout=60, kind=sb, examples=["base=1, nprops=2, nenums=1, virt=0, tmpl=0, ops=1, nsdepth=1", "base=3, nprops=3, nenums=2, virt=1, tmpl=1, ops=2, nsdepth=2"],
                bounds="4 base forms x 0-3 properties x 0-2 class enums x {plain, enumerated template} x 3 operator sets%s" % (" x virtual x namespace depth 0-2" if not q else "; virtual / namespace depth derived")),
        xh.Cond(M, "c04_class_typedef", t(300, 1500), path_timeout=60, kind=sb, examples=["base=0, nprops=1, nenums=1, place=1, ops=0, nsdepth=0", "base=2, nprops=2, nenums=2, place=0, ops=1, nsdepth=2", "base=3, nprops=3, nenums=1, place=1, ops=2, nsdepth=2"],
                bounds="typedef'd instantiation in the template's namespace / in a nested namespace x 4 base forms x 0-2 class enums x 3 operator sets x namespace depth 0-2%s" % (" x 0-3 properties" if not q else "; properties derived")),
        xh.Cond(M, "c04_all_type_spellings", t(420, 2400), path_timeout=60, kind=sb, examples=["kind=0, r=0, a=43, role=0", "kind=1, r=11, a=27, role=1", "kind=1, r=47, a=127, role=2", "kind=0, r=0, a=90, role=2"],
                bounds="every leaf of the C01 type algebra (128) and %s templated roots over it as first parameter of a method / static / function (%s)" % ("every fourth (root, leaf) pair of the 48 x 128" if not q else "every sixteenth (root, leaf) pair of the 48 x 128", "3 roles" if not q else "role derived")),
        xh.Cond(M, "c04_scoped_parameter_types", t(200, 600), kind=sb, examples=["use=1, role=1, level=0", "use=2, role=0, level=1", "use=3, role=3, level=0", "use=5, role=2, level=1"],
                bounds="%d parameter-scoped types (1-3 levels, bare and nested) x 4 roles x class-level | member-level parameter" % len(SCOPED_USES)),
        xh.Cond(M, "c04_default_verbatim", t(200, 600), kind=sb, examples=["d=0, flavour=0, role=1", "d=1, flavour=1, role=0", "d=2, flavour=2, role=3", "d=9, flavour=2, role=2"],
                bounds="%d default texts mentioning T / U / This x {plain, class template, member or function template, two parameters in scope} x 4 roles" % len(VERBATIM_DEFAULTS)),
        xh.Cond(M, "c04_kf_parent_qualifiers", 60, path_timeout=60, kind=sb, bounds="witness of a listed known finding", needs_confirm=False),
        xh.Cond(M, "c04_argname", t(120, 600), examples=["name='pose'"], bounds="all argument names of length <= 6"),
    ]
