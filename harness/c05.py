"""C05 — MATLAB call-site ids and the MEX dispatch table always agree (shape-bounded)."""
import os

from harness import mshape as ms
from vlib.trace import reached, concrete, pick
from vlib import xh

LAST_FAILURE = None
NC = ms.N_CLASS_CODES
THOROUGH = os.environ.get("VERIF_TIER", "quick") == "thorough"
REPS = [0, 5, 27, 70, 101, 143, 190, 233, 286, 311, 350, 383]
NREP = len(REPS)
BMAX = 2 if THOROUGH else 1          # quick: serialization setting / marker / namespace depth derived from the class code
NSMAX = 1                            # namespace depth derived from the class code in both tiers
NB2 = 128 if THOROUGH else NREP      # thorough: every third class shape as second class; quick: the representatives


def _fail(**kw):
    global LAST_FAILURE
    LAST_FAILURE = {k: str(v)[:1500] for k, v in kw.items()}
    return False


def build(codes, fshape, nsdepth, boost, serialize_mask=0):
    nss = ("top", "mid")[:nsdepth]
    classes, prev = [], None
    for i, c in enumerate(codes):
        d = ms.decode_class(c, i, prev)
        d["serialize"] = bool(serialize_mask >> i & 1)
        classes.append(d)
        prev = d["name"]
    funcs = ms.FUNC_SHAPES[fshape]
    inner = " ".join(ms.render_class(d, d["serialize"]) for d in classes) + " " + ms.render_functions(funcs)
    text = ms.PRELUDE + "".join("namespace %s { " % x for x in nss) + inner + " }" * len(nss)
    return text, classes, nss, funcs


def check(codes, fshape, nsdepth, boost, serialize_mask=0):
    text, classes, nss, funcs = build(codes, fshape, nsdepth, boost, serialize_mask)
    files, cpp = ms.run_toolbox(text, boost=bool(boost))
    problems = ms.check_dispatch(files, cpp, classes, nss, funcs, bool(boost))
    if problems:
        return _fail(text=text, problems=problems)
    return True


def c05_one_class(code: int, boost: int, ser: int, nsdepth: int) -> bool:
    """
    One class of every shape (virtual x base x ctors/defaults x methods/overloads x statics/properties), both
    serialization settings, with/without a serialize marker, namespace depth 0-2.
    pre: 0 <= code < NC and 0 <= boost < BMAX and 0 <= ser < BMAX and 0 <= nsdepth < NSMAX
    post: _
    """
    code, boost, ser, nsdepth = pick(code, 0, NC), pick(boost, 0, 2), pick(ser, 0, 2), pick(nsdepth, 0, 3)
    with concrete():
        nsdepth = code % 3
        if not THOROUGH:
            boost, ser = (code // 2) % 2, (code // 6) % 2
        ok = check([code], (code + nsdepth) % 4, nsdepth, boost, ser)
    reached({"code": code, "boost": boost, "ser": ser, "nsdepth": nsdepth} if (not ok or code == 101) else None)
    return ok


def c05_two_classes(a: int, b: int, fshape: int, boost: int) -> bool:
    """
    Two classes in sequence (the second may derive from the first): every id of the second is shifted by the first.
    pre: 0 <= a < NREP and 0 <= b < NB2 and 0 <= fshape < 1 and 0 <= boost < 1
    post: _
    """
    a, b, fshape, boost = pick(a, 0, NREP), pick(b, 0, NC), pick(fshape, 0, 4), pick(boost, 0, 2)
    with concrete():
        if not THOROUGH:
            b, boost, fshape = REPS[(b + 5) % NREP], (a + b) % 2, (a + 3 * b) % 4
        else:
            b, boost, fshape = b * 3 + a % 3, (a + b) % 2, (a + 3 * b) % 4
        ok = check([REPS[a], b], fshape, 1, boost, 3 if boost else 0)
    reached({"a": REPS[a], "b": b, "fshape": fshape, "boost": boost} if (not ok or (a == 3 and b == 77)) else None)
    return ok


def c05_three_classes(a: int, b: int, c: int, fshape: int) -> bool:
    """
    Three classes and free functions (overloaded, defaulted, non-consecutive overloads) in one namespace.
    pre: 0 <= a < NREP and 0 <= b < NREP and 0 <= c < (NREP if THOROUGH else 1) and 0 <= fshape < 1
    post: _
    """
    a, b, c, fshape = pick(a, 0, NREP), pick(b, 0, NREP), pick(c, 0, NREP), pick(fshape, 0, 4)
    with concrete():
        if not THOROUGH:
            c = (5 + a + 7 * b) % NREP
        fshape = (a + 2 * b + c) % 4
        ok = check([REPS[a], REPS[b], REPS[c]], fshape, (a + b) % 3, (a + c) % 2, 5)
    reached({"a": REPS[a], "b": REPS[b], "c": REPS[c], "fshape": fshape} if not ok else None)
    return ok


# ---------------------------------------------------------------- overload groups (incl. MATLAB-indistinguishable overloads)
SIGS = [
    [("int", "a", None)],
    [("size_t", "a", None)],                                   # same MATLAB guard as the first
    [("int", "a", None), ("int", "b", "0")],                   # its short form has the guard of the first again
    [("double", "x", None), ("double", "y", None)],
    [("ns::Other", "o", None)],
    [],
    [("char", "c", None), ("bool", "flag", "true")],
    [("const ns::Cam<ns::Other>&", "cam", None)],                # these two differ only INSIDE the parameter's template arguments
    [("const ns::Cam<ext::Root>&", "cam", None)],
]
NSIG = len(SIGS)
OROLES = ["function", "method", "static", "constructor"]


def check_overloads(role, i, j, k, nsdepth, pattern=0):
    nss = ("top", "mid")[:nsdepth]
    sigs = [SIGS[i], SIGS[j], SIGS[k]]
    d = ms.decode_class(6, 0, None)                          # a class with one constructor and nothing else
    funcs = []
    if role == "function":
        funcs = [("double", "fn", a) for a in sigs]
    elif role == "method":
        d["methods"] = [("double", "run", a, True) for a in sigs]
    elif role == "static":
        d["statics"] = [("double", "Make", a) for a in sigs]
    else:
        d["ctors"] = list(sigs)
    d["serialize"] = False
    # a second entity after (pattern 0) or between the overloads (1: f g f f, 2: f f g f): ids that follow a dropped or
    # doubled overload shift, and overloads that are not adjacent in the file still belong to one function
    tail = [("int", "after", [("double", "z", None)])]
    seq = funcs + tail
    if role == "function" and pattern:
        seq = funcs[:pattern] + tail + funcs[pattern:]
    inner = ms.render_class(d, False) + " " + ms.render_functions(seq)
    text = ms.PRELUDE + "".join("namespace %s { " % x for x in nss) + inner + " }" * len(nss)
    files, cpp = ms.run_toolbox(text)
    problems = ms.check_dispatch(files, cpp, [d], nss, funcs + tail, False)
    if problems:
        return _fail(text=text, problems=problems)
    return True


def c05_overload_groups(role: int, i: int, j: int, k: int, nsdepth: int) -> bool:
    """
    Three overloads of one name (free function / method / static method / constructor) drawn from 9 parameter lists that
    include pairs with the same MATLAB argument guard (int vs size_t, the short form of a defaulted overload), followed by
    another function: every call site reaches a routine of the same arity AND of the argument classes it guards for.
    pre: 0 <= role < 4 and 0 <= i < NSIG and 0 <= j < NSIG and 0 <= k < NSIG and i != j and j != k and i != k and 0 <= nsdepth <= 2
    pre: THOROUGH or (i + 2 * j + 3 * k + role) % 4 == 0
    post: _
    """
    role, i, j, k = pick(role, 0, 4), pick(i, 0, NSIG), pick(j, 0, NSIG), pick(k, 0, NSIG)
    nsdepth = pick(nsdepth, 0, 3) if THOROUGH else (i + j + k + role) % 3
    with concrete():
        ok = check_overloads(OROLES[role], i, j, k, nsdepth, (i + 2 * j + k) % 3)
    reached({"role": OROLES[role], "sigs": [i, j, k]} if (not ok or (role == 0 and (i, j, k) == (2, 0, 3))) else None)
    return ok


# ---------------------------------------------------------------- classes that share their unqualified name
LEAF_NS = [(("alpha",), ("beta",)), (("alpha",), ("alpha", "inner")), (("gt", "noise"), ("gt", "noise", "est")), ((), ("beta",))]


def check_same_leaf(a, b, layout, virt, derive):
    nsa, nsb = LEAF_NS[layout]
    da, db = ms.decode_class(a, 0, None), ms.decode_class(b, 1, None)
    for d in (da, db):
        d["name"] = "Node"
        d["serialize"] = False
        if d["base"] == 1:
            d["base"], d["base_name"] = 0, None
        d["ctors"] = [[x for x in c] for c in d["ctors"]]
    da["virtual"] = db["virtual"] = virt
    if derive and virt:
        db["base"], db["base_name"] = 1, "::".join(nsa + ("Node",))      # the later Node derives from the earlier one
    # statics returning `This` keep working under the shared name; nothing else refers to the class by name
    def block(path, body):
        return "".join("namespace %s { " % x for x in path) + body + " }" * len(path)
    text = ms.PRELUDE + block(nsa, ms.render_class(da, False)) + "\n" + block(nsb, ms.render_class(db, False)) + "\n"
    files, cpp = ms.run_toolbox(text)
    problems = ms.check_dispatch(files, cpp, [da, db], (), [], False)
    # each class's up-cast case must reach the routine that casts to ITS C++ type
    import re
    for path, d in ((nsa, da), (nsb, db)):
        if not d["virtual"]:
            continue
        cppname = "::".join(path + ("Node",))
        key = "".join("+%s/" % x for x in path) + "Node.m"
        m = re.search(r"my_ptr = \w+\((\d+), varargin\{2\}\);", files.get(key, ""))
        if not m:
            problems.append("%s: no up-cast call site" % key)
            continue
        rn = dict(readers_cases(cpp)).get(int(m.group(1)))
        body = dict(readers_routines(cpp)).get(rn, "")
        if ("<%s>" % cppname) not in body.replace(" ", ""):
            problems.append("up-cast of %s (id %s) reaches %s, which does not cast to %s" % (cppname, m.group(1), rn, cppname))
    if problems:
        return _fail(text=text, problems=problems)
    return True


def readers_cases(cpp):
    from harness import readers
    return readers.mex_cases(cpp)


def readers_routines(cpp):
    from harness import readers
    return readers.mex_routines(cpp)


def c05_same_leaf(a: int, b: int, layout: int, virt: int, derive: int) -> bool:
    """
    Two classes with the SAME unqualified name in different namespaces (siblings, nested, three deep, global + namespaced),
    virtual or not, the later one optionally derived from the earlier: ids, cases and routines agree, and each class's
    up-cast / collector / destructor call site reaches the routine of its own C++ type.
    pre: 0 <= a < NREP and 0 <= b < NREP and 0 <= layout < len(LEAF_NS) and 0 <= virt <= 1 and 0 <= derive <= 1
    post: _
    """
    a, layout, virt = pick(a, 0, NREP), pick(layout, 0, len(LEAF_NS)), pick(virt, 0, 2)
    b = pick(b, 0, NREP) if THOROUGH else (a * 5 + layout + 1) % NREP
    derive = pick(derive, 0, 2) if virt else 0
    with concrete():
        ok = check_same_leaf(REPS[a], REPS[b], layout, virt, derive)
    reached({"a": REPS[a], "b": REPS[b], "layout": layout, "virtual": virt, "derive": derive} if (not ok or (a == 3 and layout == 2)) else None)
    return ok


SECOND_TEXTS = [
    "class Plain { Plain(); Plain(int a); double value() const; static Plain Make(); int prop; }; double free1(double x);",
    "virtual class Shape { Shape(); double area() const; }; virtual class Circle : Shape { Circle(double r); double radius() const; static Circle Unit(); };",
    "namespace geo { virtual class Base { Base(); }; class Leaf : geo::Base { Leaf(); Leaf(int a, int b = 2); void put(int a) const; void put(double a, double b) const; }; void helper(int a); void helper(double a); }",
    "class Ser { Ser(); void serialize() const; double w; }; virtual class Top { Top(); };",
]


def c05_second_wrap(a: int, b: int, boost: int) -> bool:
    """
    A toolbox generated by the SECOND `wrap()` call of one MatlabWrapper object (the object carries its ids and routine
    table from call to call): in what that call writes, ids, cases and routines still agree — contiguous ids, one case
    per call site, the case runs the routine carrying its id, and the routine is the one generated for the call site's
    class, member and role.  The two files declare different names (the object accumulates: wrapping the same names
    again overwrites the first call's files and leaves its cases without a call site — reuse of that kind is not claimed).
    pre: 0 <= a < len(SECOND_TEXTS) and 0 <= b < len(SECOND_TEXTS) and a != b and 0 <= boost <= 1
    post: _
    """
    a, b, boost = pick(a, 0, len(SECOND_TEXTS)), pick(b, 0, len(SECOND_TEXTS)), pick(boost, 0, 2)
    with concrete():
        import shutil
        import tempfile
        import gtwrap.matlab_wrapper.wrapper as _mw
        from harness import pipe
        d = tempfile.mkdtemp(prefix="c05_second_")
        problems = []
        had, old = "open" in _mw.__dict__, _mw.__dict__.get("open")
        try:
            srcs = []
            for k, t in enumerate((SECOND_TEXTS[a], SECOND_TEXTS[b])):
                srcs.append(os.path.join(d, "in%d.i" % k))
                with open(srcs[-1], "w") as f:
                    f.write(t)
            w = pipe.new_matlab_wrapper(boost=bool(boost))
            _mw.open = pipe._TplOpen(old or open)
            w.wrap([srcs[0]], os.path.join(d, "out0"))
            content = w.wrap([srcs[1]], os.path.join(d, "out1"))
            files = {}
            pipe.flatten_content(content, "", files)
            problems = ms.check_dispatch(files, files.get("mod_wrapper.cpp", ""), None, (), None, bool(boost))
        except Exception as ex:
            problems.append("raised %r" % ex)
        finally:
            if had:
                _mw.open = old
            elif "open" in _mw.__dict__:
                del _mw.open
            shutil.rmtree(d, ignore_errors=True)
        ok = not problems or _fail(first=SECOND_TEXTS[a], second=SECOND_TEXTS[b], problems=problems[:6])
    reached({"a": a, "b": b, "boost": boost})
    return ok


ROLE_WORDS = ["json_serialize", "from_deserialize", "collector_count", "upcast_all", "new_state", "budget_state", "preset_state",
              "constructor_args", "deconstructor_log", "string_serializer", "display", "delete_item"]


def c05_role_words(i: int, static: int, boost: int, ser: int) -> bool:
    """
    A method or static method whose NAME contains one of the words the generator uses for its own routine roles
    (serialize, deserialize, collector, upcast, new, get_, set_, constructor, deconstructor ...) is still an ordinary
    member: its call site's id reaches the routine that calls that member, with or without a serialize marker in the class.
    pre: 0 <= i < len(ROLE_WORDS) and 0 <= static <= 1 and 0 <= boost <= 1 and 0 <= ser <= 1
    post: _
    """
    i, static, boost, ser = pick(i, 0, len(ROLE_WORDS)), pick(static, 0, 2), pick(boost, 0, 2), pick(ser, 0, 2)
    with concrete():
        name = ROLE_WORDS[i]
        member = ("static double %s(int a);" if static else "double %s(int a) const;") % name
        text = ms.PRELUDE + "namespace top { virtual class ClsA { ClsA(); %s %s int after() const; }; class ClsB { ClsB(); void %s(double x); }; }" % (
            member, "void serialize() const;" if ser else "", name)
        problems = []
        try:
            files, cpp = ms.run_toolbox(text, boost=bool(boost))
            problems = ms.check_dispatch(files, cpp, None, ("top",), None, bool(boost))
            sites = [s_ for s_ in ms.dispatch_tables(files, cpp)[0]]
            if len([f for f in files if f.endswith("ClsA.m")]) != 1:
                problems.append("no classdef file for ClsA")
            elif ("%s" % name) not in files[[f for f in files if f.endswith("ClsA.m")][0]]:
                problems.append("ClsA.m has no member %s" % name)
        except Exception as ex:
            problems.append("raised %r" % ex)
        ok = not problems or _fail(text=text, problems=problems[:6])
    reached({"name": ROLE_WORDS[i], "static": static, "boost": boost, "ser": ser})
    return ok


def conds(tier):
    q = tier == "quick"
    t = (lambda x, y: x) if q else (lambda x, y: y)
    M = "harness.c05"
    return [
        xh.Cond(M, "c05_second_wrap", t(200, 600), kind="shape-bounded", examples=["a=0, b=1, boost=0", "a=2, b=1, boost=1", "a=3, b=0, boost=1", "a=1, b=3, boost=0"],
                bounds="%d ordered pairs of different interface files wrapped by one wrapper object x serialization: the toolbox of the second call" % (len(SECOND_TEXTS) * (len(SECOND_TEXTS) - 1))),
        xh.Cond(M, "c05_role_words", t(240, 600), path_timeout=60, kind="shape-bounded", examples=["i=0, static=0, boost=0, ser=0", "i=1, static=1, boost=1, ser=1", "i=5, static=0, boost=1, ser=0"],
                bounds="%d member names containing the generator's own role words x method / static x serialization x serialize marker" % len(ROLE_WORDS)),
        xh.Cond(M, "c05_one_class", t(420, 3000), path_timeout=60, kind="shape-bounded", examples=["code=101, boost=1, ser=1, nsdepth=1", "code=383, boost=0, ser=0, nsdepth=2"],
                bounds="all %d class shapes%s" % (NC, " x both serialization settings x serialize marker (namespace depth derived)" if not q else "; serialization / marker / namespace depth derived from the shape code")),
        xh.Cond(M, "c05_overload_groups", t(420, 1800), path_timeout=60, kind="shape-bounded", examples=["role=0, i=2, j=0, k=3, nsdepth=0", "role=0, i=0, j=1, k=3, nsdepth=0", "role=0, i=3, j=4, k=5, nsdepth=1", "role=0, i=1, j=3, k=5, nsdepth=0", "role=1, i=7, j=8, k=0, nsdepth=0", "role=0, i=8, j=7, k=3, nsdepth=1", "role=2, i=0, j=7, k=8, nsdepth=0", "role=3, i=7, j=2, k=8, nsdepth=0", "role=1, i=0, j=1, k=4, nsdepth=1", "role=3, i=5, j=2, k=6, nsdepth=2", "role=2, i=6, j=1, k=0, nsdepth=0"],
                bounds="4 roles x %s ordered triples of 7 parameter lists (same-guard pairs included)%s" % ("all" if not q else "every fourth of the", " x namespace depth 0-2" if not q else "; namespace depth derived")),
        xh.Cond(M, "c05_same_leaf", t(300, 1800), path_timeout=60, kind="shape-bounded", examples=["a=3, b=4, layout=2, virt=1, derive=0", "a=1, b=1, layout=0, virt=1, derive=1", "a=7, b=2, layout=3, virt=0, derive=0"],
                bounds="%s class-shape pairs under one unqualified name x 4 namespace layouts x virtual x derived" % ("%d x %d" % (NREP, NREP) if not q else "%d (second derived)" % NREP)),
        xh.Cond(M, "c05_two_classes", t(420, 3000), path_timeout=60, kind="shape-bounded", examples=["a=3, b=77, fshape=2, boost=0", "a=7, b=383, fshape=3, boost=1"],
                bounds=("%d representative first classes x every third of the %d class shapes as second class (free-function shape / serialization derived)" % (NREP, NC)) if not q else ("%d x %d representative class pairs; free-function shape and serialization derived" % (NREP, NREP))),
        xh.Cond(M, "c05_three_classes", t(420, 3000), path_timeout=60, kind="shape-bounded", examples=["a=1, b=5, c=9, fshape=3"],
                bounds=("%d^3 representative class triples (free-function shape derived)" % NREP) if not q else ("%d x %d representative pairs with a derived third class and free-function shape" % (NREP, NREP))),
    ]
