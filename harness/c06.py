"""C06 — MATLAB overload guards, default expansion and C++ marshalling line up."""
import copy
import os
import re

import gtwrap.interface_parser as parser
from gtwrap.matlab_wrapper import MatlabWrapper

from harness import pipe, readers
from vlib.trace import reached, concrete, pick
from vlib import xh
from harness.known import kf_open

LAST_FAILURE = None
THOROUGH = os.environ.get("VERIF_TIER", "quick") == "thorough"


def _fail(**kw):
    global LAST_FAILURE
    LAST_FAILURE = {k: str(v)[:1500] for k, v in kw.items()}
    return False


# (interface spelling, MATLAB isa type, unwrap family, C++ unwrap type, declared C++ variable type, deref in call, default)
# families: 'unwrap' (basic value), 'enum', 'sp' (shared_ptr), 'ref' (*unwrap_shared_ptr), 'raw' (unwrap_ptr)
POOL = [
    ("int", "numeric", "unwrap", "int", "int", False, "3"),
    ("double", "double", "unwrap", "double", "double", False, "1.5"),
    ("size_t", "numeric", "unwrap", "size_t", "size_t", False, "0"),
    ("bool", "logical", "unwrap", "bool", "bool", False, "true"),
    ("string", "char", "unwrap", "string", "string", False, '"a,  b"'),
    ("Vector", "double", "unwrap", "Vector", "Vector", False, "Vector()"),
    ("Matrix", "double", "unwrap", "Matrix", "Matrix", False, "Matrix()"),
    ("ns::Other", "ns.Other", "sp", "ns::Other", "std::shared_ptr<ns::Other>", True, "ns::Other()"),
    ("const ns::Other&", "ns.Other", "ref", "ns::Other", "ns::Other&", False, 'ns::Other(1,\n        "two  blanks\tand a tab")'),      # a default written over two lines
    ("ns::Other&", "ns.Other", "ref", "ns::Other", "ns::Other&", False, None),
    ("ns::Other*", "ns.Other", "sp", "ns::Other", "std::shared_ptr<ns::Other>", False, "nullptr"),
    ("ns::Other@", "ns.Other", "raw", "ns::Other", "ns::Other*", False, "nullptr"),
    ("top::Color", "top.Color", "enum", "top::Color", "top::Color", False, "top::Color::Red"),
    ("top::Cls::Kind", "top.Cls.Kind", "enum", "top::Cls::Kind", "top::Cls::Kind", False, "top::Cls::Kind::A"),
    ("const double&", "double", "unwrap", "double", "double", False, "2.0"),
    ("unsigned char", "unsigned char", "unwrap", "unsigned char", "unsigned char", False, "'c'"),
    # string literals behind an ODD number of quote characters (an escaped quote, a quote as character literal): the blanks inside count
    ("string", "char", "unwrap", "string", "string", False, '"5\\"  wide\tx"'),
    ("string", "char", "unwrap", "string", "string", False, 'ns::pad(\'"\', "  a  b")'),
]
NP = len(POOL)
# (interface spelling, number of outputs, list of (family, text pieces to find))
RETS = [
    ("void", 0, []),
    ("int", 1, [("wrap", "int")]),
    ("double", 1, [("wrap", "double")]),
    ("string", 1, [("wrap", "string")]),
    ("Vector", 1, [("wrap", "Vector")]),
    ("ns::Other", 1, [("make_shared", "ns::Other", "ns.Other")]),
    ("ns::Other*", 1, [("shared", "ns.Other")]),
    ("pair<int, ns::Other>", 2, [("wrap", "int"), ("make_shared", "ns::Other", "ns.Other")]),
    ("pair<Vector, Matrix>", 2, [("wrap", "Vector"), ("wrap", "Matrix")]),
    ("top::Color", 1, [("enum", "top.Color")]),
    ("bool", 1, [("wrap", "bool")]),
]
NR = len(RETS)
ROLES = ("ctor", "method", "static", "function")
NAMES = ["a", "b", "c", "d"]


# what surrounds the declaration under test: 0 nothing; 1 an EARLIER namespace with the same last name component (`pre::top`)
# that declares callables but no enum Color; 2 the same, declaring an unrelated enum of another name
LAYOUT_PRE = ["",
              "namespace pre { namespace top { class First { First(); double use(double v, ns::Other o) const; }; double early(double w); } }\n",
              "namespace pre { namespace top { enum Shade { Dark }; class First { First(); void use(pre::top::Shade s) const; }; } }\n"]


def render(role, argspec, ret, layout=0):
    args = ", ".join("%s %s%s" % (POOL[t][0], NAMES[i], (" = " + POOL[t][6]) if d else "") for i, (t, d) in enumerate(argspec))
    member = {"ctor": "Cls(%s);" % args, "method": "%s doIt(%s) const;" % (RETS[ret][0], args),
              "static": "static %s doIt(%s);" % (RETS[ret][0], args), "function": ""}[role]
    fn = "%s doIt(%s);" % (RETS[ret][0], args) if role == "function" else ""
    return ("namespace ns { class Other { Other(); }; }\n" + LAYOUT_PRE[layout] +
            "namespace top { enum Color { Red, Green }; class Cls { enum Kind { A, B }; %s }; %s }\n" % (member, fn))


def ptr_name(cpptype):
    return "ptr_" + re.sub(r"[^A-Za-z0-9_]", "", cpptype)


def squash(text):
    """white space outside string / character literals removed (the MEX source re-indents the continuation lines of a
    default written over several lines; inside literals every character counts)"""
    out = []
    for i, part in enumerate(re.split(r'''("(?:[^"\\\\]|\\\\.)*"|'(?:[^'\\\\]|\\\\.)*')''', text)):
        out.append(part if i % 2 else re.sub(r"\s+", "", part))
    return "".join(out)


def check_callable(role, tis, k, ret, layout=0):
    n = len(tis)
    argspec = []
    for i, t in enumerate(tis):
        has_default = i >= n - k and POOL[t][6] is not None
        argspec.append((t, has_default))
    # defaults must be trailing
    seen = False
    for i in range(n - 1, -1, -1):
        if not argspec[i][1]:
            seen = True
        elif seen:
            argspec[i] = (argspec[i][0], False)
    text = render(role, argspec, ret, layout)
    files, cpp, _w = pipe.matlab(text)
    kdef = 0
    for t, d in reversed(argspec):
        if d:
            kdef += 1
        else:
            break
    arities = list(range(n, n - kdef - 1, -1))
    problems = []
    routines = dict(readers.mex_routines(cpp))
    cases = dict(readers.mex_cases(cpp))
    # ---- MATLAB side
    mfile = {"function": "+top/doIt.m"}.get(role, "+top/Cls.m")
    if mfile not in files:
        return _fail(text=text, problems=["missing file " + mfile, sorted(files)])
    m = files[mfile]
    if role == "ctor":
        guards = re.findall(r"elseif nargin == (\d+)((?: && [^\n]*)?)\n\s*(?:\[ my_ptr, base_ptr \] = |my_ptr = )mod_wrapper\((\d+)", m)
    else:
        seg = m
        if role in ("method", "static"):
            i0 = m.index("function varargout = doIt(")
            seg = m[i0:m.index("error('Arguments do not match", i0)]
        guards = re.findall(r"(?:if|elseif) length\(varargin\) == (\d+)((?: && [^\n]*)?)\n\s*(?:\[ varargout\{1\} varargout\{2\} \] = |varargout\{1\} = )?mod_wrapper\((\d+)", seg)
    if [int(g[0]) for g in guards] != arities:
        problems.append("MATLAB guards offer arities %r, declaration gives %r" % ([int(g[0]) for g in guards], arities))
    for cnt, cond, wid in guards:
        a = int(cnt)
        isa = re.findall(r"isa\(varargin\{(\d+)\},'([^']*)'\)", cond)
        want = [(str(i + 1), POOL[tis[i]][1]) for i in range(a)]
        if isa != want:
            problems.append("arity %d: guard types %r, declared %r" % (a, isa, want))
        # ---- C++ side
        rn = cases.get(int(wid))
        body = routines.get(rn)
        if body is None:
            problems.append("id %s has no routine" % wid)
            continue
        off = 1 if role == "method" else 0
        if role != "ctor":
            ca = re.search(r'checkArguments\("[^"]*",nargout,nargin(-1)?,(\d+)\)', body)
            if not ca or int(ca.group(2)) != a or bool(ca.group(1)) != (role == "method"):
                problems.append("arity %d: checkArguments %r" % (a, ca.group(0) if ca else None))
        un = re.findall(r"^\s*(.+?) (\w+) = (\*?)(unwrap\w*)<\s*(.+?)\s*>\(in\[(\d+)\](?:, \"(\w+)\")?\);$", body, re.M)
        un = [u for u in un if u[1] != "obj"]
        if len(un) != a:
            problems.append("arity %d: %d unwrap statements" % (a, len(un)))
        call_args = []
        for i in range(min(a, len(un))):
            sp, mt, fam, ut, decl, deref, _d = POOL[tis[i]]
            dty, nm, star, fn, uty, idx, pn = un[i]
            wfn = {"unwrap": "unwrap", "enum": "unwrap_enum", "sp": "unwrap_shared_ptr", "ref": "unwrap_shared_ptr", "raw": "unwrap_ptr"}[fam]
            if (nm, fn, uty, int(idx), dty, star) != (NAMES[i], wfn, ut, i + off, decl, "*" if fam == "ref" else ""):
                problems.append("arity %d arg %d: `%s %s = %s%s< %s >(in[%s])`, declared `%s` at position %d" % (a, i, dty, nm, star, fn, uty, idx, sp, i + off))
            if fam in ("sp", "ref", "raw") and pn != ptr_name(ut):
                problems.append("arity %d arg %d: handle property %r" % (a, i, pn))
            call_args.append(("*" if deref else "") + NAMES[i])
        for i in range(a, n):
            call_args.append(POOL[tis[i]][6])
        callee = {"ctor": "new top::Cls", "method": "obj->doIt", "static": "top::Cls::doIt", "function": "top::doIt"}[role]
        want_call = "%s(%s)" % (callee, ",".join(call_args))
        sbody = squash(body)
        if squash(want_call) not in sbody:
            got = re.search(re.escape(callee) + r"\((.*)\)", body, re.S)
            problems.append("arity %d: call %r, declared %r" % (a, got.group(0)[:120] if got else None, want_call))
        if role != "ctor":
            rspec = RETS[ret]
            outs = re.findall(r"out\[(\d)\] = ", body)
            if len(outs) != rspec[1] or outs != [str(i) for i in range(rspec[1])]:
                problems.append("arity %d: outputs %r for return type %s" % (a, outs, rspec[0]))
            for oi, piece in enumerate(rspec[2]):
                src = want_call if rspec[1] == 1 else "pairResult." + ("first", "second")[oi]
                if piece[0] == "wrap":
                    w = "out[%d] = wrap< %s >(%s);" % (oi, piece[1], src)
                elif piece[0] == "make_shared":
                    w = 'out[%d] = wrap_shared_ptr(std::make_shared<%s>(%s),"%s", false);' % (oi, piece[1], src, piece[2])
                elif piece[0] == "shared":
                    w = 'out[%d] = wrap_shared_ptr(%s,"%s", false);' % (oi, src, piece[1])
                else:
                    w = 'out[%d] = wrap_enum(%s,"%s");' % (oi, src, piece[1])
                if squash(w) not in sbody:
                    problems.append("arity %d: return statement for output %d should be `%s`" % (a, oi, w))
            if rspec[1] == 2 and squash("auto pairResult = %s;" % want_call) not in sbody:
                problems.append("arity %d: pair result is not taken from the declared call" % a)
            if rspec[1] == 0 and squash(want_call + ";") not in sbody:
                problems.append("arity %d: void call statement missing" % a)
            mret = {0: "", 1: "varargout{1} = ", 2: "[ varargout{1} varargout{2} ] = "}[rspec[1]]
            if not re.search(r"\n\s*" + re.escape(mret) + r"mod_wrapper\(" + wid, m):
                problems.append("arity %d: MATLAB side assigns outputs differently from %r" % (a, mret))
    if problems:
        return _fail(text=text, problems=problems)
    return True


T1MAX = 2 if THOROUGH else 1
RMAX = 4 if THOROUGH else 1


def uses_enum(tis, ret):
    """the listed known finding: a class-scoped enum (pool entry 13) used by a free function"""
    return any(t == 13 for t in tis)


def _run(role, n, k, t0, t1, ret, exact=False):
    role, n, k, t0, t1, ret = pick(role, 0, 4), pick(n, 0, 5), pick(k, 0, 5), pick(t0, 0, NP), pick(t1, 0, NP), pick(ret, 0, NR)
    with concrete():
        tis = [t0, (t0 * 5 + 3 + t1 * 7) % NP, (t0 * 3 + 7 + t1) % NP, (t0 + 11) % NP][:n]
        if not exact:
            ret = (ret * 3 + t0 + n + 2 * k + role) % NR
        if role == 0:
            ret = 0
        if role == 3 and kf_open("C06-foreign-scope-enum") and uses_enum(tis, ret):
            reached()
            return True          # listed known finding (replayed separately by its witness): free functions and enums
        ok = check_callable(ROLES[role], tis, k, ret, (n + k + t0) % 3)
    reached({"role": ROLES[role], "types": [POOL[t][0] for t in tis], "defaults": k, "ret": RETS[ret][0]} if (not ok or (t0 == 7 and n == 2)) else None)
    return ok


def c06_ctor(n: int, k: int, t0: int, t1: int) -> bool:
    """
    pre: 0 <= n <= 4 and 0 <= k <= n and 0 <= t0 < NP and 0 <= t1 < T1MAX
    post: _
    """
    return _run(0, n, k, t0, t1, 0)


def c06_method(n: int, k: int, t0: int, t1: int, ret: int) -> bool:
    """
    pre: 0 <= n <= 3 and 0 <= k <= n and 0 <= t0 < NP and 0 <= t1 < T1MAX and 0 <= ret < RMAX
    post: _
    """
    return _run(1, n, k, t0, t1, ret)


def c06_static(n: int, k: int, t0: int, t1: int, ret: int) -> bool:
    """
    pre: 0 <= n <= 3 and 0 <= k <= n and 0 <= t0 < NP and 0 <= t1 < T1MAX and 0 <= ret < RMAX
    post: _
    """
    return _run(2, n, k, t0, t1, ret)


def c06_function(n: int, k: int, t0: int, t1: int, ret: int) -> bool:
    """
    pre: 0 <= n <= 3 and 0 <= k <= n and 0 <= t0 < NP and 0 <= t1 < T1MAX and 0 <= ret < RMAX
    post: _
    """
    return _run(3, n, k, t0, t1, ret)


def c06_returns(role: int, ret: int, n: int) -> bool:
    """
    Every return shape for every role that has one.
    pre: 1 <= role <= 3 and 0 <= ret < NR and 0 <= n <= 1 and not (role == 2 and ret == 0)
    post: _
    """
    return _run(role, n, 0, 7, 0, ret, exact=True)


# ---- _expand_default_arguments with symbolic masks (includes illegal masks: default before non-default)
with concrete():
    _M = parser.Module.parseString("class A { void f(int a0, int a1, int a2, int a3, int a4) const; };")


def c06_expand(n: int, mask: int) -> bool:
    """
    _expand_default_arguments: legal mask (defaults trailing) -> exactly k+1 overloads with arities n..n-k, each
    keeping the first `arity` parameters in order and args.backup holding the full list with the original
    default text; illegal mask -> AssertionError; the input method is not changed.
    pre: 0 <= n <= 5 and 0 <= mask < 32
    post: _
    """
    with concrete():
        meth = copy.deepcopy(_M.content[0].methods[0])
    n = pick(n, 0, 6)
    args = meth.args.list()
    del args[n:]
    bits = []
    for i in range(n):
        b = (mask >> i) % 2 == 1
        bits.append(b)
        args[i].default = ("dflt%d" % i) if b else None
    k = 0
    for b in reversed(bits):
        if b:
            k += 1
        else:
            break
    legal = not any(bits[:n - k])
    before = [(a.name, a.default) for a in meth.args.list()]
    try:
        out = MatlabWrapper._expand_default_arguments(meth)
    except AssertionError:
        reached()
        return not legal
    ok = legal
    ok = ok and [len(o.args.list()) for o in out] == list(range(n, n - k - 1, -1))
    for o in out:
        ok = ok and [a.name for a in o.args.list()] == ["a%d" % i for i in range(len(o.args.list()))]
        ok = ok and [(a.name, a.default) for a in o.args.backup.list()] == before
    ok = ok and [(a.name, a.default) for a in meth.args.list()] == before
    reached()
    return ok


def check_function_overloads(r1, r2, r3, role=0):
    """three overloads of one free function (role 0) / method (1) / static method (2) with their own return shapes; arities 0 / 3 / 2,1"""
    sigs = [(r1, "", [0]), (r2, "double x, double y, double z", [3]), (r3, "string s, int v = 1", [2, 1])]
    decl = " ".join(("%s doIt(%s);", "%s doIt(%s) const;", "static %s doIt(%s);")[role] % (RETS[r][0], a) for r, a, _ in sigs)
    text = ("namespace ns { class Other { Other(); }; }\nnamespace top { enum Color { Red, Green }; " +
            (decl if role == 0 else "class Cls { Cls(); %s };" % decl) + " }\n")
    files, cpp, _w = pipe.matlab(text)
    m = files.get("+top/doIt.m" if role == 0 else "+top/Cls.m")
    if m is None:
        return _fail(text=text, problems=["no MATLAB file for doIt", sorted(files)])
    if role:
        i0 = m.index("function varargout = doIt(")
        m = m[i0:m.index("error('Arguments do not match", i0)]
    routines = dict(readers.mex_routines(cpp))
    cases = dict(readers.mex_cases(cpp))
    guards = re.findall(r"(?:if|elseif) length\(varargin\) == (\d+)[^\n]*\n\s*((?:\[ varargout\{1\} varargout\{2\} \] = |varargout\{1\} = )?)mod_wrapper\((\d+)", m)
    problems = []
    want = {}
    for r, _a, ars in sigs:
        for a in ars:
            want[a] = r
    if sorted(int(g[0]) for g in guards) != sorted(want):
        problems.append("arities offered %r, declared %r" % ([g[0] for g in guards], sorted(want)))
    for cnt, assign, wid in guards:
        r = want.get(int(cnt))
        if r is None:
            continue
        nout = RETS[r][1]
        exp_assign = {0: "", 1: "varargout{1} = ", 2: "[ varargout{1} varargout{2} ] = "}[nout]
        if assign != exp_assign:
            problems.append("arity %s (returns %s): MATLAB assigns %r, its own return shape needs %r" % (cnt, RETS[r][0], assign, exp_assign))
        body = routines.get(cases.get(int(wid)), "")
        outs = re.findall(r"out\[(\d)\] = ", body)
        if len(outs) != nout:
            problems.append("arity %s (returns %s): routine produces %d outputs" % (cnt, RETS[r][0], len(outs)))
    if problems:
        return _fail(text=text, problems=problems)
    return True


def c06_function_overloads(r1: int, r2: int, r3: int, role: int) -> bool:
    """
    Overloads of one free function / method / static method with DIFFERENT return shapes (void / value / object / pair):
    each arity's MATLAB-side output assignment and C++ routine follow that overload's own declared return type.
    pre: 0 <= r1 < NR and 0 <= r2 < NR and 0 <= r3 < NR and 0 <= role <= 2
    post: _
    """
    r1, r2 = pick(r1, 0, NR), pick(r2, 0, NR)
    r3 = pick(r3, 0, NR) if THOROUGH else (r1 * 3 + r2 + 1) % NR
    role = pick(role, 0, 3) if THOROUGH else (r1 + r2) % 3
    with concrete():
        ok = check_function_overloads(r1, r2, r3, role)
    reached({"returns": [RETS[r][0] for r in (r1, r2, r3)]} if (not ok or (r1 == 7 and r2 == 0)) else None)
    return ok


ALG_PRELUDE = "class Cls { Cls(); }; namespace a { class Cls { Cls(); }; namespace b { class Cls { Cls(); }; } }\n"


def alg_expect(ty, name, idx):
    """(declaration of the local, call argument, isa class) the MEX routine / call site must have for parameter `name` of type ty"""
    from harness.shapes import cpp as ref_cpp
    const, nss, tname, args, suf = ty
    bare = ref_cpp((False, nss, tname, tuple((False, a[1], a[2], a[3], "") for a in args), "")).replace(", ", ",")
    mat = bare.replace("::", ".").replace("<", "").replace(">", "").replace(",", "")
    if not nss and not args and tname in ("int", "unsigned char"):
        return "%s %s = unwrap< %s >(in[%d]);" % (tname, name, tname, idx), name, {"int": "numeric", "unsigned char": "unsigned char"}[tname]
    pn = "ptr_" + re.sub(r"[^A-Za-z0-9_]", "", bare)
    if args:      # the handle / MATLAB class name of a templated type drops the namespaces of its arguments
        inner = "".join(a[2] for a in args)
        pn = "ptr_" + "".join(nss) + tname + inner
        mat = ".".join(nss + (tname + inner,))
    if suf == "@":
        return '%s* %s = unwrap_ptr< %s >(in[%d], "%s");' % (bare, name, bare, idx, pn), name, mat
    if suf == "&":
        return '%s& %s = *unwrap_shared_ptr< %s >(in[%d], "%s");' % (bare, name, bare, idx, pn), name, mat
    decl = 'std::shared_ptr<%s> %s = unwrap_shared_ptr< %s >(in[%d], "%s");' % (bare, name, bare, idx, pn)
    return decl, (name if suf == "*" else "*" + name), mat


def c06_all_types(kind: int, r: int, a: int, role: int) -> bool:
    """
    Every type of the small algebra of C01 that the MATLAB dialect covers (int / unsigned char / class names in three
    namespaces x 8 const-*-@-& combinations; templated roots with unqualified arguments) as the first parameter of a
    constructor / method / static method / free function: the call-site guard tests the MATLAB class of the declared
    type and the MEX routine unwraps it with the family the passing mode requires (value and & : shared pointer,
    dereferenced; * : shared pointer; @ : raw pointer; basic types by value) and forwards it in declaration order.
    pre: 0 <= kind <= 1 and 0 <= r < 48 and 0 <= a < 128 and 0 <= role <= 3
    pre: kind == 0 or r % (2 if THOROUGH else 8) == a % (2 if THOROUGH else 8)
    post: _
    """
    from harness import c01_tree as A
    from harness.shapes import itext
    kind, a = pick(kind, 0, 2), pick(a, 0, A.NA_LEAF)
    r = pick(r, 0, A.NA_ROOT) if kind else 0            # (a leaf has no root: keep r concrete)
    role = pick(role, 0, 4) if THOROUGH else (a + r) % 4
    ok = True
    with concrete():
        leaf = A.a_leaf(a)
        ty = leaf if kind == 0 else A.a_root(r, [(False, leaf[1], leaf[2], (), ""), A.a_leaf((a * 5 + r) % A.NA_LEAF)[:4] + ("",)][:1 + (a + r) % 2])
        if kind:
            ty = (ty[0], ty[1], ty[2], tuple((False, x[1], x[2], (), "") for x in ty[3]), ty[4])     # unqualified arguments (see the listed known finding)
        flat = [ty] + list(ty[3])
        in_dialect = A.a_allowed(ty, "argument") and all(t[2] != "This" and "T" not in t[1] for t in flat) \
            and not any(t[2] in ("int", "unsigned char") and t[4] in ("*", "@") for t in flat) and not (ty[2] in ("int", "unsigned char") and ty[4] == "&" and not ty[0])
        if in_dialect:
            sig = "%s x, double y" % itext(ty)
            decl = ["class K { K(%s); };" % sig, "class K { K(); void doIt(%s) const; };" % sig, "class K { K(); static void doIt(%s); };" % sig, "void doIt(%s);" % sig][role]
            text = ALG_PRELUDE + "namespace top { " + decl + " }"
            problems = []
            try:
                files, cpp, _w = pipe.matlab(text)
            except Exception as ex:
                files, cpp = {}, ""
                problems.append("raised %r" % ex)
            off = 1 if role == 1 else 0
            want_decl, want_arg, want_isa = alg_expect(ty, "x", off)
            routines = dict(readers.mex_routines(cpp))
            key = "_constructor_" if role == 0 else "doIt_"
            body = next((b for n, b in routines.items() if key in n and (role == 3 or n.startswith("top")) and " x = " in b), "")
            if not problems:
                if want_decl not in body:
                    got = [l.strip() for l in body.split("\n") if re.search(r"\bx = ", l)]
                    problems.append("routine unwraps %r, the declared type needs %r" % (got, want_decl))
                callee = ["new top::K(", "obj->doIt(", "top::K::doIt(", "top::doIt("][role]
                if (callee + want_arg + ",y)") not in body:
                    got = re.search(re.escape(callee) + r"[^;]*", body)
                    problems.append("call %r, expected %r" % (got.group(0) if got else None, callee + want_arg + ",y)"))
                m = files.get("+top/doIt.m" if role == 3 else "+top/K.m", "")
                # (the MATLAB class name of a templated type is not specified anywhere: guard judged for untemplated types only)
                if not ty[3] and ("isa(varargin{1},'%s') && isa(varargin{2},'double')" % want_isa) not in m:
                    got = re.findall(r"isa\(varargin\{1\},'[^']*'\)", m)
                    problems.append("guard %r, expected class %r" % (got[-1:] , want_isa))
            if problems:
                ok = _fail(text=text, problems=problems)
    reached({"kind": kind, "a": a, "r": r, "role": role} if not ok else None)
    return ok


def c06_kf_template_arg_qualifiers(which: int) -> bool:
    """
    Witness replay for known finding C06-template-arg-qualifiers (`*`, `@`, `const &` on a template ARGUMENT of a parameter type).
    pre: 0 <= which <= 1
    post: _
    """
    which = pick(which, 0, 2)
    with concrete():
        arg = ("a::Cls*", "std::shared_ptr<a::Cls>") if which == 0 else ("const a::Cls&", "const a::Cls&")
        text = ALG_PRELUDE + "namespace top { class K { K(); void doIt(std::vector<%s> x) const; }; }" % arg[0]
        files, cpp, _w = pipe.matlab(text)
        body = next((b for n, b in dict(readers.mex_routines(cpp)).items() if "doIt_" in n), "")
        want = "unwrap_shared_ptr< std::vector<%s> >(in[1]" % arg[1]
        ok = want in body or _fail(text=text, problems=["routine does not unwrap the declared element type: expected %r in %r" % (want, [l.strip() for l in body.split("\n") if " x = " in l])])
    reached()
    return ok


BARE_PAIRS = [("ns1::Pose", "ns2::Pose", "ns1.Pose", "ns2.Pose"), ("a::b::Key", "a::Key", "a.b.Key", "a.Key"), ("Pose", "ns2::Pose", "Pose", "ns2.Pose")]
BARE_PRELUDE = "class Pose { Pose(); }; namespace ns1 { class Pose { Pose(); }; } namespace ns2 { class Pose { Pose(); }; } namespace a { class Key { Key(); }; namespace b { class Key { Key(); }; } }\n"


def c06_same_bare_name(pair: int, first: int, second: int, swap: int) -> bool:
    """
    Two parameter types that share their unqualified name (`ns1::Pose`, `ns2::Pose`): the first is a parameter of a method /
    static method / constructor / function declared EARLIER, the second of one declared later — every call-site guard tests
    the MATLAB class of ITS OWN declared type (`ns2.Pose`), at every arity, whatever was wrapped before.
    pre: 0 <= pair < len(BARE_PAIRS) and 0 <= first <= 3 and 0 <= second <= 3 and 0 <= swap <= 1
    post: _
    """
    pair, first, second, swap = pick(pair, 0, len(BARE_PAIRS)), pick(first, 0, 4), pick(second, 0, 4), pick(swap, 0, 2)
    with concrete():
        t1, t2, m1, m2 = BARE_PAIRS[pair]
        if swap:
            t1, t2, m1, m2 = t2, t1, m2, m1

        def decl(role, cls, ty):
            sig = "const %s& p, int k = 1" % ty
            return ["class %s { %s(%s); };" % (cls, cls, sig), "class %s { %s(); void go(%s) const; };" % (cls, cls, sig),
                    "class %s { %s(); static double go(%s); };" % (cls, cls, sig), "double %sfn(%s);" % (cls.lower(), sig)][role]
        text = BARE_PRELUDE + "namespace top { " + decl(first, "Robot", t1) + " " + decl(second, "Planner", t2) + " }"
        files, cpp, _w = pipe.matlab(text)
        problems = []
        for role, cls, mat in ((first, "Robot", m1), (second, "Planner", m2)):
            m = files.get("+top/%sfn.m" % cls.lower() if role == 3 else "+top/%s.m" % cls, "")
            guards = re.findall(r"(?:nargin|length\(varargin\)) == (\d)( && isa\(varargin\{1\},'([^']*)'\))?", m)
            seen = [(g[0], g[2]) for g in guards if g[1]]
            want = [("2", mat), ("1", mat)]
            if sorted(seen) != sorted(want):
                problems.append("%s (parameter of MATLAB class %s): guards %r" % (cls, mat, seen))
        ok = not problems or _fail(text=text, problems=problems)
    reached({"pair": pair, "first": first, "second": second, "swap": swap})
    return ok


def c06_same_bare_overloads(pair: int, role: int, swap: int, firstdef: int) -> bool:
    """
    Two OVERLOADS of one name (method / static method / constructor / function) whose first parameter types share their
    unqualified name (`ns1::Pose`, `ns2::Pose`), the later one (or both) with a defaulted trailing parameter: every arity
    of every overload keeps its own call-site guard (testing the MATLAB class of its own declared type) and its own C++
    routine — a shorter form of the later overload is not a duplicate of the earlier overload.
    pre: 0 <= pair < len(BARE_PAIRS) and 0 <= role <= 3 and 0 <= swap <= 1 and 0 <= firstdef <= 1
    post: _
    """
    pair, role, swap, firstdef = pick(pair, 0, len(BARE_PAIRS)), pick(role, 0, 4), pick(swap, 0, 2), pick(firstdef, 0, 2)
    with concrete():
        t1, t2, m1, m2 = BARE_PAIRS[pair]
        if swap:
            t1, t2, m1, m2 = t2, t1, m2, m1
        s1 = "const %s& p%s" % (t1, ", int k = 1" if firstdef else "")
        s2 = "const %s& p, int k = 1" % t2
        body = ["Robot(%s); Robot(%s);", "Robot(); void go(%s) const; void go(%s) const;", "Robot(); static double go(%s); static double go(%s);", None][role]
        if body is None:
            text = BARE_PRELUDE + "namespace top { double robotfn(%s); double robotfn(%s); }" % (s1, s2)
        else:
            text = BARE_PRELUDE + "namespace top { class Robot { %s }; }" % (body % (s1, s2))
        files, cpp, _w = pipe.matlab(text)
        problems = []
        m = files.get("+top/robotfn.m" if role == 3 else "+top/Robot.m", "")
        guards = re.findall(r"(?:nargin|length\(varargin\)) == (\d)( && isa\(varargin\{1\},'([^']*)'\))?", m)
        seen = sorted((g[0], g[2]) for g in guards if g[1])
        want = sorted(([("2", m1)] if firstdef else []) + [("1", m1), ("2", m2), ("1", m2)])
        if seen != want:
            problems.append("guards %r, expected %r" % (seen, want))
        name = "robotfn" if role == 3 else ("go" if role else "Robot")
        ids = re.findall(r"mod_wrapper\((\d+)", "\n".join(l for l in m.split("\n") if "varargin{:}" in l))
        if role != 0 and (len(ids) != len(set(ids)) or len(ids) < len(want)):      # (constructor call sites pass their arguments one by one)
            problems.append("call-site ids of the overload group: %r (expected %d distinct ones)" % (ids, len(want)))
        ok = not problems or _fail(text=text, problems=problems)
    reached({"pair": pair, "role": role, "swap": swap, "firstdef": firstdef})
    return ok


def c06_kf_function_enum(which: int) -> bool:
    """
    Witness replay for known finding C06-foreign-scope-enum (free function taking a class-scoped enum).
    pre: 0 <= which <= 1
    post: _
    """
    which = pick(which, 0, 2)
    with concrete():
        ok = check_callable("function", [13] if which == 0 else [0, 13], 0, 2 if which == 0 else 9)
    reached()
    return ok


def conds(tier):
    q = tier == "quick"
    t = (lambda x, y: x) if q else (lambda x, y: y)
    M = "harness.c06"
    sb = "shape-bounded"
    tb = "%d first-parameter kinds (value / reference / shared / raw pointer / enum / Vector / Matrix / string; further parameters derived; surrounding layout derived: none / an earlier namespace with the same last name component, with or without enums)%s" % (NP, " x 2 type rows x 4 return-shape offsets" if not q else "; return shape derived")
    return [
        xh.Cond(M, "c06_expand", t(200, 900), examples=["n=3, mask=6", "n=3, mask=2", "n=0, mask=0"], bounds="0-5 parameters, all 32 default masks (legal and illegal)"),
        xh.Cond(M, "c06_ctor", t(420, 3000), path_timeout=60, kind=sb, examples=["n=2, k=1, t0=7, t1=0", "n=4, k=4, t0=0, t1=1"], bounds="constructors: 0-4 parameters, every default count, " + tb),
        xh.Cond(M, "c06_method", t(420, 3000), path_timeout=60, kind=sb, examples=["n=2, k=2, t0=8, t1=0, ret=5", "n=3, k=1, t0=12, t1=1, ret=7"], bounds="methods: 0-3 parameters, every default count, " + tb),
        xh.Cond(M, "c06_static", t(420, 3000), path_timeout=60, kind=sb, examples=["n=1, k=1, t0=10, t1=0, ret=6"], bounds="static methods: as methods"),
        xh.Cond(M, "c06_function", t(420, 3000), path_timeout=60, kind=sb, examples=["n=2, k=1, t0=11, t1=0, ret=8"], bounds="free functions: as methods"),
        xh.Cond(M, "c06_function_overloads", t(300, 1800), path_timeout=60, kind=sb, examples=["r1=0, r2=7, r3=1, role=0", "r1=7, r2=0, r3=5, role=0", "r1=0, r2=2, r3=7, role=1", "r1=5, r2=0, r3=8, role=1", "r1=2, r2=7, r3=1, role=2"],
                bounds="3 overloads x %d return shapes each x {free function, method, static method}%s" % (NR, "" if not q else " (third shape and role derived)")),
        xh.Cond(M, "c06_all_types", t(420, 2400), path_timeout=60, kind=sb, examples=["kind=0, r=0, a=43, role=1", "kind=0, r=0, a=3, role=0", "kind=1, r=11, a=35, role=2", "kind=1, r=27, a=43, role=3"],
                bounds="every in-dialect leaf of the C01 type algebra and %s templated roots over unqualified leaves, as first parameter (%s)" % ("every second (root, leaf) pair of the" if not q else "every eighth (root, leaf) pair of the", "4 roles" if not q else "role derived")),
        xh.Cond(M, "c06_same_bare_overloads", t(300, 900), path_timeout=60, kind=sb, examples=["pair=0, role=1, swap=0, firstdef=0", "pair=1, role=0, swap=1, firstdef=1", "pair=2, role=3, swap=0, firstdef=0"],
                bounds="%d type pairs with one unqualified name x 4 roles x order x first overload with / without a default: overloads of ONE name" % len(BARE_PAIRS)),
        xh.Cond(M, "c06_same_bare_name", t(300, 900), path_timeout=60, kind=sb, examples=["pair=0, first=1, second=0, swap=0", "pair=1, first=2, second=3, swap=1", "pair=2, first=1, second=1, swap=0"],
                bounds="%d type pairs sharing a bare name x 4 x 4 roles of the earlier / later callable x both orders" % len(BARE_PAIRS)),
        xh.Cond(M, "c06_kf_template_arg_qualifiers", 60, path_timeout=60, kind=sb, bounds="witness of a listed known finding", needs_confirm=False),
        xh.Cond(M, "c06_kf_function_enum", 60, path_timeout=60, kind=sb, bounds="witness of a listed known finding", needs_confirm=False),
        xh.Cond(M, "c06_returns", t(200, 900), path_timeout=60, kind=sb, examples=["role=1, ret=7, n=1"], bounds="3 roles x %d return shapes x 0-1 parameters" % NR),
    ]
