"""C07 part X — corrupted / invalid inputs fail loudly and leave no output (both generators, both scripts)."""
import io
import os
import sys

import gtwrap.pybind_wrapper as _pw
import gtwrap.matlab_wrapper.wrapper as _mw
from gtwrap.pybind_wrapper import PybindWrapper
from gtwrap.matlab_wrapper import MatlabWrapper

from harness import pipe
from harness.c16 import patched_io, run_script, DATA, tpl
from harness.refgrammar import well_formed
from vlib.trace import reached, concrete, pick
from vlib import xh

LAST_FAILURE = None
THOROUGH = os.environ.get("VERIF_TIER", "quick") == "thorough"

BASE = ("#include < a.h > namespace ns { class Base ; virtual class A : Base { A ( int a = 3 , double b = 1.5 ) ; "
        "void f ( const A & x ) const ; static double g ( ) ; int p ; A operator + ( const A & o ) const ; enum K { X , Y } ; } ; "
        "template < T = { int , double } > T tf ( const T & t ) ; typedef ns :: V < int > VI ; template < S > class V { } ; "
        "pair < int , A * > fn ( A * o , std :: vector < double > v = A ) ; } enum E { P } ; const double k = 3 ;").split()
NB = len(BASE)
STRAY = ["}", "{", ";", ")", "(", "class", "x", ">", "<", ",", "=", "::", "3", "*"]
NS = len(STRAY)
KINDS = ["delete", "duplicate", "swap", "truncate", "insert"]

INVALID_TEXTS = [
    ("constructor name differs from the class", "class A { B(); };"),
    ("binary operator with two arguments", "class A { A operator+(const A& x, const A& y) const; };"),
    ("unary operator *", "class A { A operator*() const; };"),
    ("operator with mixed argument / return types", "class A { A operator+(const B& x) const; };"),
    ("typedef of an undeclared template", "typedef Missing<int> M;"),
    ("typedef target declared twice", "template<T> class D { }; template<T> class D { }; typedef D<int> DI;"),
    ("class template instantiated with too few arguments", "template<T, U> class P { }; typedef P<int> PI;"),
    ("const after a static method", "class A { static double f(int a) const; };"),
    ("const after a constructor", "class A { A(int a) const; };"),
    ("const after a free function", "double f(int a) const;"),
    ("static free function", "static double f(int a);"),
    ("virtual on a method", "class A { virtual void f(); };"),
    ("non-const operator", "class A { A operator+(const A& o); };"),
    ("enum without enumerators", "enum E { };"),
    ("class without trailing semicolon", "class A { A(); } class B { };"),
    ("typedef of a non-templated type", "class A { }; typedef A B;"),
    ("template header without parameters", "template<> class A { };"),
    ("two base classes", "class A : B, C { };"),
    ("argument without a name", "void f(int);"),
    ("default without a value", "void f(int a = );"),
    ("constructor name differs from the class, class has a base", "class B { }; class A : B { C(); };"),
    ("constructor-shaped member (return type lost) in a derived class", "class B { }; virtual class A : B { A(); scale(double f); };"),
    ("constructor name differs, templated base", "template<T> class B { }; class A : B<double> { Other(int a); };"),
    ("constructor name differs in a class template with a base", "class B { }; template<T = {double}> class A : B { A2(T t); };"),
    ("template header on an operator", "class A { template<T = {double}> A operator+(const A& o) const; };"),
    ("template header on a unary operator", "class A { template<T> A operator-() const; };"),
    ("template header on a dunder method", "class A { template<T> __len__(); };"),
    ("template header on a property", "class A { template<T> double p; };"),
    ("template header on an enum", "template<T> enum E { X };"),
    ("template header on a class-scoped enum", "class A { template<T> enum E { X }; };"),
    ("template header on a variable", "template<T> const double k = 3;"),
    ("template header on a typedef", "template<T> class B { }; template<T> typedef B<int> BI;"),
    ("template header on a namespace", "template<T> namespace n { }"),
    ("template header on a forward declaration", "template<T> class F;"),
    ("template header on an include", "template<T> #include <a.h>"),
    ("two template headers", "template<T> template<U> class A { };"),
    ("virtual on a function", "virtual double f();"),
    ("const on a property", "class A { double p const; };"),
]
NI = len(INVALID_TEXTS)


def _fail(**kw):
    global LAST_FAILURE
    LAST_FAILURE = {k: repr(v)[:1500] for k, v in kw.items()}
    return False


def render(tokens):
    out = " ".join(tokens)
    return out.replace("< a.h >", "<a.h>").replace("std:: ", "std::")


def corrupt(kind, k, s):
    t = list(BASE)
    if kind == "delete":
        del t[k]
    elif kind == "duplicate":
        t.insert(k, t[k])
    elif kind == "swap":
        if k + 1 < len(t):
            t[k], t[k + 1] = t[k + 1], t[k]
    elif kind == "truncate":
        t = t[:k]
    else:
        t.insert(k, STRAY[s])
    return t


class _FakeFile:
    def __init__(self, s):
        self.s = s

    def read(self):
        return self.s

    def __enter__(self):
        return self

    def __exit__(self, *a):
        return False


def run_all(text):
    """the four entry points on `text` (supplied through the recorder as file in.i); returns per-entry outcome"""
    outcomes = {}
    for entry in ("pybind_api", "pybind_submodule_api", "matlab_api", "pybind_script", "pybind_submodule_script", "matlab_script"):
        with patched_io() as rec:
            real = rec.open

            def opener(name, mode="r", *a, **k):
                if str(name).endswith("in.i") and "r" in mode:
                    rec.read.append(str(name))
                    return io.StringIO(text)
                return real(name, mode, *a, **k)
            _pw.open = opener
            _mw.open = opener
            try:
                if entry == "pybind_api":
                    PybindWrapper(module_name="m", top_module_namespaces=[''], ignore_classes=[''], module_template=tpl()).wrap(["in.i"], "out.cpp")
                elif entry == "pybind_submodule_api":
                    PybindWrapper(module_name="m", top_module_namespaces=[''], ignore_classes=[''], module_template=tpl()).wrap_submodule("in.i")
                elif entry == "pybind_submodule_script":
                    run_script("pybind_wrap.py", ["--src", "in.i", "--module_name", "m", "--out", "out.cpp", "--template", os.path.join(DATA, "module.tpl"), "--is_submodule"])
                elif entry == "matlab_api":
                    MatlabWrapper(module_name="m", top_module_namespace=[''], ignore_classes=['']).wrap(["in.i"], "outdir")
                elif entry == "pybind_script":
                    run_script("pybind_wrap.py", ["--src", "in.i", "--module_name", "m", "--out", "out.cpp", "--template", os.path.join(DATA, "module.tpl")])
                else:
                    run_script("matlab_wrap.py", ["--src", "in.i", "--module_name", "m", "--out", "outdir"])
                outcomes[entry] = ("ok", sorted(rec.written), list(rec.dirs))
            except BaseException as ex:
                if type(ex).__name__ in ("IgnoreAttempt", "UnexploreableStatePath", "NotDeterministic", "PathTimeout", "CrossHairInternal", "KeyboardInterrupt"):
                    raise
                outcomes[entry] = ("raised " + type(ex).__name__, sorted(rec.written), list(rec.dirs))
    return outcomes


def judge(text, must_fail, label, per_generator=False):
    outcomes = run_all(text)
    problems = []
    for entry, (status, written, dirs) in outcomes.items():
        if status != "ok" and (written or dirs):
            problems.append("%s failed (%s) but created %r %r" % (entry, status, written, dirs))
        if must_fail and status == "ok":
            problems.append("%s accepted an input that is not a complete sequence of declarations" % entry)
    kinds = {o[0] == "ok" for o in outcomes.values()}
    if per_generator:
        # a generator may validate what the other does not: only the API and the script of ONE generator have to agree
        kinds = {True}
        for gen in ("pybind", "matlab"):
            if len({o[0] == "ok" for k, o in outcomes.items() if k.startswith(gen)}) > 1:
                kinds = {True, False}
    if len(kinds) != 1:
        # pybind and MATLAB validate differently only for defaults-before-non-defaults; everything here must agree
        problems.append("entry points disagree: %r" % {k: v[0] for k, v in outcomes.items()})
    if problems:
        return _fail(label=label, text=text, problems=problems)
    return True


def c07_corruption(kind: int, k: int, s: int) -> bool:
    """
    Every single-token corruption (deletion, duplication, swap, truncation at any point, stray token) of a
    60-token interface file: if what remains is not a complete sequence of declarations, all six entry points (pybind wrap / wrap_submodule / MATLAB wrap through the API and through the scripts)
    fail; a failing run creates no file and no directory.
    pre: 0 <= kind < 5 and 0 <= k < NB and 0 <= s < NS
    post: _
    """
    kind, k = pick(kind, 0, 5), pick(k, 0, NB)
    if not THOROUGH and (k + kind) % 3 != 0:
        reached()
        return True                     # quick tier: every third position per corruption kind (offset by kind)
    s = (k + 3 * pick(s, 0, 5)) % NS if (kind == 4 and THOROUGH) else (k % NS)
    with concrete():
        toks = corrupt(KINDS[kind], k, s)
        wf = well_formed(toks, relaxed=True)
        ok = judge(render(toks), not wf, "%s at %d" % (KINDS[kind], k))
    reached({"corruption": KINDS[kind], "at": k, "well_formed_after": wf} if (not ok or k == 17) else None)
    return ok


def c07_validation(i: int) -> bool:
    """
    Inputs that parse but violate a documented rule (constructor name, operator arity / kind / types, typedef
    of an unknown, ambiguous or under-specified template): every entry point fails and leaves nothing behind.
    pre: 0 <= i < NI
    post: _
    """
    i = pick(i, 0, NI)
    with concrete():
        ok = judge(INVALID_TEXTS[i][1], True, INVALID_TEXTS[i][0])
    reached({"rule": INVALID_TEXTS[i][0]})
    return ok


EDGE_TEXTS = [
    ("function overloaded across two blocks of a re-opened namespace, a class before it", "namespace ns { class A { A(); }; void f(int a); }\nnamespace ns { void f(double a); }"),
    ("class named like a template instantiation", "namespace ns { class A { A(); }; template<T = {double}> class Box { Box(); }; class BoxDouble { BoxDouble(); }; }"),
    ("class declared twice at top level", "namespace ns { class A { A(); }; }\nclass Dup { Dup(); };\nclass Dup { Dup(int a); };"),
    ("enum, class and overloads in re-opened namespaces", "namespace a { enum E { X }; class C { C(); }; }\nnamespace b { void g(); void g(int x); }\nnamespace b { void g(double y); }"),
    ("function named like a class of its namespace", "namespace ns { class A { A(); }; class f { f(); }; void f(int a); }"),
    ("namespace named like a class with an enum", "namespace ns { class A { A(); enum K { k1 }; }; namespace A { class Inner { Inner(); }; } }"),
    ("two typedefs of one instantiation", "namespace ns { class Z { Z(); }; template<T> class Box { Box(); }; typedef ns::Box<double> B1; typedef ns::Box<double> B2; }"),
    ("only forward declarations and includes", "#include <a/b.h>\nclass Fwd;\nnamespace ns { class A { A(); }; virtual class G; }"),
    ("empty namespaces around a class", "namespace e1 { }\nnamespace ns { class A { A(); }; namespace e2 { } }\nnamespace e1 { }"),
]


def c07_edge_inputs(i: int) -> bool:
    """
    Valid inputs of the kind a generator-side validation is most likely to be written against (two declarations aiming at
    one output file, duplicates, look-alike names, hollow namespaces), each with a namespaced class in front: whatever a
    generator decides about them — today they are all accepted — the API and the script of one generator agree, and a
    run that fails leaves no file and no directory behind.
    pre: 0 <= i < len(EDGE_TEXTS)
    post: _
    """
    i = pick(i, 0, len(EDGE_TEXTS))
    with concrete():
        ok = judge(EDGE_TEXTS[i][1], False, EDGE_TEXTS[i][0], per_generator=True)
    reached({"input": EDGE_TEXTS[i][0]})
    return ok


DEFAULT_ORDER_TEXTS = [
    ("constructor", "class A { A(int a = 2, double b); };"),
    ("method", "class A { A(); void f(int a = 2, double b) const; };"),
    ("static method", "class A { A(); static double f(int a = 2, double b); };"),
    ("free function", "namespace n { double f(int a = 2, double b); }"),
    ("constructor of a class template", "template<T = {double}> class A { A(T lo = 0, T hi, bool closed = true); };"),
    ("member template", "class A { A(); template<U = {int}> void f(U a = 1, double b) const; };"),
    ("second overload", "class A { A(); A(int ok, double fine = 1); A(int a = 2, double b); };"),
]


def c07_matlab_default_order(i: int) -> bool:
    """
    MATLAB generator: a parameter with a default value in front of one without is a validation error for EVERY kind of
    callable (constructor, method, static method, free function, templates, any overload) — through the API and through
    the script — and the failing run writes nothing.  (The pybind generator performs no such validation and is not judged.)
    pre: 0 <= i < len(DEFAULT_ORDER_TEXTS)
    post: _
    """
    i = pick(i, 0, len(DEFAULT_ORDER_TEXTS))
    with concrete():
        label, text = DEFAULT_ORDER_TEXTS[i]
        outcomes = run_all(text)
        problems = []
        for entry in ("matlab_api", "matlab_script"):
            status, written, dirs = outcomes[entry]
            if status == "ok":
                problems.append("%s accepted a default value in front of a parameter without one (%s) and wrote %r" % (entry, label, written[:4]))
            elif written or dirs:
                problems.append("%s failed (%s) but created %r %r" % (entry, status, written, dirs))
        ok = not problems or _fail(label=label, text=text, problems=problems)
    reached({"callable": DEFAULT_ORDER_TEXTS[i][0]})
    return ok


MF_DECLS = [
    "namespace one { class A { A(); }; }",
    "namespace two { class B { B(); void run() const; }; double fb(int x); }",
    "class G { G(); };",
    "namespace one { class C { C(); }; enum E { X, Y }; }",
    "double gf(double x);",
    "namespace three { namespace deep { class D { D(); }; } }",
]
MF_ARTEFACTS = ["+one/A.m", "+two/B.m", "+two/fb.m", "G.m", "+one/C.m", "+one/E.m", "gf.m", "+three/+deep/D.m"]


def c07_multifile(cut1: int, cut2: int, rot: int) -> bool:
    """
    MATLAB build from 1-3 interface files: every top-level declaration of EVERY file (a second namespace block, a global
    class / function after the first block, ...) is either reflected in the toolbox or the run fails — none is parsed,
    accepted and dropped.
    pre: 0 <= cut1 <= len(MF_DECLS) and cut1 <= cut2 <= len(MF_DECLS) and 0 <= rot < len(MF_DECLS)
    post: _
    """
    n = len(MF_DECLS)
    cut1, cut2, rot = pick(cut1, 0, n + 1), pick(cut2, 0, n + 1), pick(rot, 0, n)
    with concrete():
        from harness import c16
        decls = MF_DECLS[rot:] + MF_DECLS[:rot]
        parts = [p for p in (decls[:cut1], decls[cut1:cut2], decls[cut2:]) if p]
        texts = ["\n".join(p) + "\n" for p in parts]
        ok = True
        try:
            files = c16.matlab_files_for(texts)
        except Exception as ex:
            files = None                                   # a loud failure is allowed by the property (C16 judges whether it should fail)
        if files is not None:
            missing = [a for a in MF_ARTEFACTS if a not in files]
            if missing:
                ok = _fail(files=texts, problems=["accepted, but nothing was generated for %r" % missing])
    reached({"cuts": [cut1, cut2], "rot": rot} if (not ok or (cut1 == 2 and cut2 == 4 and rot == 0)) else None)
    return ok


# ---------------------------------------------------------------- accepted names are used
NAME_SKIP = ["pickle", "serialize", "serializable", "print", "display", "disp", "delete", "A", "ns", "operator", "static", "template", "typedef", "virtual", "class", "enum",
             "namespace", "const", "void", "bool", "char", "int", "size_t", "double", "float", "unsigned", "pair", "This", "if", "do", "in", "is", "or", "as"]
FIRST = pipe.IDENT_FIRST
REST = pipe.IDENT_REST
NAMES4 = ["pick", "ickl", "ckle", "pic", "ick", "ckl", "kle", "pickl", "ickle", "seri", "prin", "rint", "dele", "disp", "get_", "set_", "oper", "temp", "This", "self", "this", "obj", "varargin", "nargin", "ptr_", "wrap", "unwrap"]


def c07_names_used(first: int, role: int) -> bool:
    """
    "Never half-used", generator side: whatever identifier an accepted method, static method or free function is called,
    both generators emit code calling exactly that member (`obj->NAME(a)` / `self->NAME(a)`, `ns::A::NAME(b)`,
    `ns::NAME(c)`) — no name is silently dropped (the documented MATLAB exclusion `pickle` and the serialization names
    aside).  One batch = every identifier of length 1-2 starting with one character, plus longer names around the
    generators' special words.
    pre: 0 <= first < len(FIRST) and 0 <= role <= 2
    post: _
    """
    first = pick(first, 0, len(FIRST))
    role = pick(role, 0, 3) if THOROUGH else first % 3          # quick: one role per first character
    with concrete():
        names = [FIRST[first]] + [FIRST[first] + c for c in REST] + [n for n in NAMES4 if n[0] == FIRST[first]]
        names = [n for n in names if n not in NAME_SKIP]
        body = ["void %s(int a) const;", "static double %s(double b);", "void %s(int c);"][role]
        decls = " ".join(body % n for n in names)
        text = "namespace ns { class A { A(); %s }; %s }" % (decls if role < 2 else "", decls if role == 2 else "")
        problems = []
        try:
            import copy
            import gtwrap.template_instantiator as _ti
            parsed = pipe.parse(text)                                  # one parse (the slow step) serves both generators
            m1 = _ti.instantiate_namespace(copy.deepcopy(parsed))
            mw = pipe.new_matlab_wrapper()
            mw.wrap_namespace(m1)
            mw.generate_wrapper(m1)
            files = {}
            pipe.flatten_content(mw.content, "", files)
            cpp = files.get("mod_wrapper.cpp", "")
            pw = PybindWrapper(module_name="mod", top_module_namespaces=[''], ignore_classes=[''], module_template=pipe.PYBIND_TPL)
            pw._submodules = []
            out = pw.wrap_namespace(_ti.instantiate_namespace(parsed))[0]
        except Exception as ex:
            cpp = out = ""
            problems.append("raised %r" % ex)
        for n in names:
            want_m = ["obj->%s(a)", "ns::A::%s(b)", "ns::%s(c)"][role] % n
            want_p = ["self->%s(a)", "ns::A::%s(b)", "ns::%s(c)"][role] % n
            if not problems and want_m not in cpp:
                problems.append("MATLAB: no routine calls %s" % want_m)
            if not problems and want_p not in out:
                problems.append("pybind: no binding calls %s" % want_p)
        ok = not problems or _fail(role=["method", "static method", "free function"][role], problems=problems[:6])
    reached({"first": FIRST[first], "role": role})
    return ok


def conds(tier):
    q = tier == "quick"
    t = (lambda x, y: x) if q else (lambda x, y: y)
    M = "harness.c07_io"
    return [
        xh.Cond(M, "c07_names_used", t(300, 900), kind="shape-bounded", path_timeout=60, examples=["first=0, role=0", "first=15, role=1", "first=41, role=2", "first=52, role=0"],
                bounds="all identifiers of length <= 2 (and %d longer ones around the generators' special words) as the name of a method / static method / free function%s, both generators" % (len(NAMES4), " (one role per first character)" if q else "")),
        xh.Cond(M, "c07_corruption", t(420, 2400), kind="shape-bounded", path_timeout=60, examples=["kind=3, k=17, s=0", "kind=0, k=5, s=0", "kind=4, k=30, s=2"],
                bounds="5 corruption kinds x %s token positions%s, 6 entry points each" % (("all %d" % NB) if not q else ("every third of %d" % NB), " x 5 stray tokens per position" if not q else " (stray token derived)")),
        xh.Cond(M, "c07_multifile", t(200, 600), kind="shape-bounded", examples=["cut1=2, cut2=4, rot=0", "cut1=1, cut2=1, rot=3", "cut1=0, cut2=3, rot=5", "cut1=2, cut2=2, rot=1", "cut1=3, cut2=6, rot=0"],
                bounds="6 top-level declarations in 6 rotations, split into 1-3 files at every pair of cut points"),
        xh.Cond(M, "c07_matlab_default_order", t(120, 300), kind="shape-bounded", examples=["i=0", "i=4", "i=6"], bounds="%d kinds of callable x 2 MATLAB entry points" % len(DEFAULT_ORDER_TEXTS)),
        xh.Cond(M, "c07_edge_inputs", t(120, 300), kind="shape-bounded", examples=["i=0", "i=2", "i=5"], bounds="%d accepted edge inputs x 6 entry points" % len(EDGE_TEXTS)),
        xh.Cond(M, "c07_validation", t(120, 300), kind="shape-bounded", examples=["i=0", "i=4"], bounds="%d rule violations x 6 entry points" % NI),
    ]
