"""C08 — exactly the requested instantiations, in order, with stable names.

Part 1 (this file, spelling-symbolic): instantiate_name / class + function + method naming.
Part 2 (harness/c08_product.py, shape-bounded): Cartesian product, order, typedefs, pass-through.
"""
import os

import gtwrap.interface_parser as parser
import gtwrap.template_instantiator as ti
from gtwrap.template_instantiator import helpers as H

from harness.pipe import is_ident
from harness.known import kf_open
from vlib.trace import reached, concrete, pick

LAST_FAILURE = None
THOROUGH = os.environ.get("VERIF_TIER", "quick") == "thorough"
LA = 7 if THOROUGH else 5
LN2 = 3 if THOROUGH else 2            # the two-name condition
LCM = 5 if THOROUGH else 3            # the condition that goes through instantiate_namespace


def _fail(**kw):
    global LAST_FAILURE
    with concrete():
        LAST_FAILURE = {k: str(v) for k, v in kw.items()}
    return False


def _cap(a):
    """Reference: capitalise the first character only (ASCII identifiers)."""
    c = a[0]
    if "a" <= c <= "z":
        c = chr(ord(c) - 32)
    return c + a[1:]


def c08_name_single(a: str) -> bool:
    """
    Name = template name + the argument's name with its first letter capitalised, rest untouched.
    pre: is_ident(a, 1, LA)
    pre: not (kf_open('C08-capitalise') and a[0] in a[1:])
    post: _
    """
    got = H.instantiate_name("Tmpl", [parser.Typename(["ns", a])])
    want = "Tmpl" + _cap(a)
    ok = got == want or _fail(a=a, got=got, want=want)
    reached()
    return ok


def c08_name_nested(a: str, bsel: int) -> bool:
    """
    Two arguments, the first one itself templated with two arguments (the second again templated with two): names
    are concatenated in source order, depth first, each top-level part capitalised at its own first letter only.
    The outer name `a` is symbolic; the inner name is one of four fixed spellings.
    pre: is_ident(a, 1, LN2) and 0 <= bsel < (4 if THOROUGH else 2)
    pre: not (kf_open('C08-capitalise') and (a[0] in a[1:]))
    post: _
    """
    b = ("d", "aa", "Zq", "a_")[pick(bsel, 0, 4)]
    first = parser.Typename(["std", a], [parser.Typename([b]), parser.Typename(["y", "Zz"], [parser.Typename(["Q9"]), parser.Typename([b])])])
    got = H.instantiate_name("Tmpl", [first, parser.Typename(["x", b])])
    want = "Tmpl" + _cap(a) + b + "Zz" + "Q9" + b + _cap(b)
    ok = got == want or _fail(a=a, b=b, got=got, want=want)
    reached()
    return ok


# ---------------------------------------------------------------- every instantiation-argument tree of a small algebra
N_NAMES = ["a", "Ab", "aa", "zed9"]
N_NS = [(), ("x",), ("x", "Yy")]
NNODE = len(N_NAMES) * len(N_NS)            # 12 (name, namespace) heads


def n_head(code):
    return N_NAMES[code // len(N_NS)], N_NS[code % len(N_NS)]


def n_trees(depth):
    """all trees: head + 0, 1 or 2 children (children of depth-1 trees are leaves)"""
    leaves = [(n_head(h), ()) for h in range(NNODE)]
    if depth == 0:
        return leaves
    out = list(leaves)
    for h in range(NNODE):
        for c1 in leaves:
            out.append((n_head(h), (c1,)))
            for c2 in leaves[::5]:
                out.append((n_head(h), (c1, c2)))
    return out


def n_typename(t):
    (name, ns), kids = t
    return parser.Typename(list(ns) + [name], [n_typename(k) for k in kids])


def n_preorder(t):
    (name, _ns), kids = t
    return name + "".join(n_preorder(k) for k in kids)


def c08_all_names(head: int, second: int) -> bool:
    """
    Every instantiation argument that is a tree over 4 names x 3 namespaces with up to two template arguments, which
    may have up to two (leaf) arguments themselves, alone and followed by a second argument: the instantiation suffix is
    the names of the tree in source order (depth first, left to right), namespaces dropped, first letter of each
    top-level argument capitalised.
    pre: 0 <= head < NNODE and 0 <= second <= NNODE
    post: _
    """
    head, second = pick(head, 0, NNODE), pick(second, 0, NNODE + 1)
    ok = True
    with concrete():
        d1 = n_trees(1)
        sec = [] if second == NNODE else [(n_head(second), ((n_head((second * 7 + 3) % NNODE), ()),) if second % 2 else ())]
        firsts = [(n_head(head), ())] + [(n_head(head), (c1,)) for c1 in d1[::3]] + [(n_head(head), (c1, c2)) for c1 in d1[::7] for c2 in d1[1::41]]
        for t in firsts:
            args = [t] + sec
            got = H.instantiate_name("Tmpl", [n_typename(x) for x in args])
            want = "Tmpl" + "".join(_cap(n_preorder(x)) for x in args)
            if got != want:
                ok = _fail(arguments=[n_typename(x).to_cpp() for x in args], got=got, want=want)
                break
    reached({"head": head, "second": second} if not ok else None)
    return ok


with concrete():
    _SRC = parser.Module.parseString(
        "namespace gt { template<T = {ns::Arg}> class Tmpl { Tmpl(T t); template<U = {ns::Arg}> void meth(U u); };"
        " template<T = {ns::Arg}> T fun(T t); }")


def c08_class_and_members(a: str) -> bool:
    """
    Through instantiate_namespace: class `Tmpl<ns::a>` is named Tmpl+Cap(a) and refers to gt::Tmpl<ns::a>;
    the member template to meth+Cap(a) / meth<ns::a>; the function to fun+Cap(a) / fun<ns::a>.
    pre: is_ident(a, 1, LCM) and a != "This"
    pre: not (kf_open('C08-capitalise') and a[0] in a[1:])
    post: _
    """
    import copy
    with concrete():
        mod = copy.deepcopy(_SRC)
    ns = mod.content[0]
    cls, fun = ns.content[0], ns.content[1]
    cls.template.instantiations[0][0].name = a
    cls.methods[0].template.instantiations[0][0].name = a
    fun.template.instantiations[0][0].name = a
    out = ti.instantiate_namespace(mod)
    c, f = out.content[0].content
    got = (c.name, c.to_cpp(), c.ctors[0].name, c.methods[0].name, c.methods[0].to_cpp(), f.name, f.to_cpp(),
           len(out.content[0].content))
    want = ("Tmpl" + _cap(a), "gt::Tmpl<ns::" + a + ">", "Tmpl" + _cap(a), "meth" + _cap(a), "meth<ns::" + a + ">",
            "fun" + _cap(a), "fun<ns::" + a + ">", 2)
    ok = got == want or _fail(a=a, got=got, want=want)
    reached()
    return ok
