"""C08 part 2 — Cartesian product, order, typedef instantiations and pass-through (shape-bounded)."""
import itertools
import os

import gtwrap.interface_parser as parser
import gtwrap.template_instantiator as ti

from vlib.trace import reached, concrete, pick
from vlib import xh

LAST_FAILURE = None
THOROUGH = os.environ.get("VERIF_TIER", "quick") == "thorough"
ARGS = [("double", "Double", "double"), ("ns::A", "A", "ns::A"), ("size_t", "Size_t", "size_t"), ("other::deep::B", "B", "other::deep::B")]
PARAMS = ["T", "U", "V"]


def _fail(**kw):
    global LAST_FAILURE
    LAST_FAILURE = {k: repr(v)[:1800] for k, v in kw.items()}
    return False


def tmpl_header(lens, names=PARAMS, offset=0):
    """template<T = {..}, U = {..}> with lens[i] instantiations for parameter i (0 -> no list)"""
    parts = []
    for i, ln in enumerate(lens):
        if ln:
            parts.append("%s = {%s}" % (names[i], ", ".join(ARGS[(offset + i + j) % len(ARGS)][0] for j in range(ln))))
        else:
            parts.append(names[i])
    return "template<%s>" % ", ".join(parts)


def product(lens, offset=0):
    lists = [[ARGS[(offset + i + j) % len(ARGS)] for j in range(ln)] for i, ln in enumerate(lens)]
    return [list(c) for c in itertools.product(*lists)]


def build(p, lens, mp, mlens, fp, flens, td_kind, td_place, nsdepth):
    nss = ("top", "mid")[:nsdepth]
    q = "".join(x + "::" for x in nss)
    lens, mlens, flens = lens[:p], mlens[:mp], flens[:fp]
    cls_head = tmpl_header(lens)
    mem_head = tmpl_header(mlens, names=["MA", "MB"], offset=1) + " " if mp else ""
    cls = "%s class Tm { Tm(%s a); %svoid meth(%s x) const; void plain(int i) const; };" % (
        cls_head, PARAMS[0], mem_head, "MA" if mp else PARAMS[0])
    fun = "%s %s fun(const %s& a);" % (tmpl_header(flens), PARAMS[0], PARAMS[0]) if fp else "double fun(double a);"
    td = ""
    td_target = None
    if td_kind == 1:
        args = [ARGS[(2 + i) % len(ARGS)] for i in range(p)]
        td = "typedef %sTm<%s> TdCls;" % (q, ", ".join(a[0] for a in args))
        td_target = ("class", "TdCls", "%sTm<%s>" % (q, ", ".join(a[2] for a in args)))
    elif td_kind == 2 and fp:
        args = [ARGS[(2 + i) % len(ARGS)] for i in range(fp)]
        td = "typedef %sfun<%s> TdFun;" % (q, ", ".join(a[0] for a in args))
        td_target = ("function", "TdFun", "fun<%s>" % ",".join(a[2] for a in args))
    elif td_kind == 3:
        td = "typedef %sForeign<double> TdForeign;" % q
        td_target = ("declaration", "TdForeign", "%sForeign<double>" % q)
    fillers = ["class Plain { Plain(); };", "enum Col { R };", "int var;", "void freeFn(int z);", "class Foreign;"]
    body = [fillers[0], cls, fillers[1], fillers[4], fun, fillers[2], fillers[3]]
    outer_before, inner_sub, outer_after = "", "", ""
    if td:
        if td_place == 0:
            body.insert(0, td)
        elif td_place == 1:
            body.append(td)
        elif td_place == 2 and nsdepth > 0:
            outer_before = td + "\n"
        elif td_place == 3:
            inner_sub = " namespace sub { %s }" % td
        elif td_place == 4 and nsdepth > 0:
            outer_after = "\n" + td                                  # at global scope AFTER the template's namespace block
        elif td_place == 5:
            outer_after = "\nnamespace later { %s }" % td            # in a sibling namespace after it
        else:
            body.append(td)
            td_place = 1
    text = ("namespace ns { class A { A(); }; }\nnamespace other { namespace deep { class B { B(); }; } }\n" + outer_before +
            "".join("namespace %s { " % x for x in nss) + " ".join(body) + inner_sub + " }" * nsdepth + outer_after)
    # ---- expectation: (kind, name, cpp) in order inside the namespace
    exp = [("class", "Plain", q + "Plain")]
    for combo in product(lens):
        exp.append(("class", "Tm" + "".join(a[1] for a in combo), "%sTm<%s>" % (q, ", ".join(a[2] for a in combo))))
    exp.append(("enum", "Col", None))
    exp.append(("forward", "Foreign", None))
    if fp:
        for combo in product(flens):
            exp.append(("function", "fun" + "".join(a[1] for a in combo), "fun<%s>" % ",".join(a[2] for a in combo)))
    else:
        exp.append(("function", "fun", "fun"))
    exp.append(("variable", "var", None))
    exp.append(("function", "freeFn", "freeFn"))
    td_exp = None
    if td_target:
        td_exp = td_target
    # member instantiations of each class instantiation
    meths = []
    if mp:
        for combo in product(mlens, offset=1):
            meths.append(("meth" + "".join(a[1] for a in combo), "meth<%s>" % ",".join(a[2] for a in combo)))
    else:
        meths.append(("meth", "meth"))
    meths.append(("plain", "plain"))
    return text, exp, td_exp, td_place, meths, nss


def kind_of(e):
    if isinstance(e, ti.InstantiatedClass):
        return "class"
    if isinstance(e, ti.InstantiatedDeclaration):
        return "declaration"
    if isinstance(e, parser.GlobalFunction):
        return "function"
    if isinstance(e, parser.Enum):
        return "enum"
    if isinstance(e, parser.Variable):
        return "variable"
    if isinstance(e, parser.ForwardDeclaration):
        return "forward"
    if isinstance(e, parser.Namespace):
        return "namespace"
    if isinstance(e, parser.TypedefTemplateInstantiation):
        return "typedef"
    return type(e).__name__


def check(p, lens, mp, mlens, fp, flens, td_kind, td_place, nsdepth):
    text, exp, td_exp, td_place, meths, nss = build(p, lens, mp, mlens, fp, flens, td_kind, td_place, nsdepth)
    mod = ti.instantiate_namespace(parser.Module.parseString(text))
    scope = mod
    for n in nss:
        scope = [e for e in scope.content if isinstance(e, parser.Namespace) and e.name == n][0]
    problems = []
    got = []
    subs = []
    for e in scope.content:
        k = kind_of(e)
        if k == "namespace":
            subs.append(e)
            continue
        cpp = e.to_cpp() if k in ("class", "function", "declaration") else None
        if k == "class" and not isinstance(e, ti.InstantiatedClass):
            cpp = None
        got.append((k, e.name, cpp))
    want = list(exp)
    td_scope_items = None
    if td_exp:
        if td_place in (0, 1):
            want.append(td_exp)               # typedef instantiations come after the namespace's own content, once
        elif td_place == 5:
            td_scope_items = [(kind_of(e), e.name, e.to_cpp()) for s in mod.content if kind_of(s) == "namespace" and s.name == "later" for e in s.content]
        elif td_place in (2, 4):
            td_scope_items = [(kind_of(e), e.name, e.to_cpp()) for e in mod.content if kind_of(e) in ("class", "function", "declaration")
                              and e.name.startswith("Td")]
        else:
            sub = [s for s in subs if s.name == "sub"]
            td_scope_items = [(kind_of(e), e.name, e.to_cpp()) for s in sub for e in s.content]
        if td_scope_items is not None and td_scope_items != [td_exp]:
            problems.append("typedef instantiation %r, expected %r" % (td_scope_items, td_exp))
    want_cmp = [(k, n, (c if k in ("class", "function", "declaration") else None)) for k, n, c in want]
    if got != want_cmp:
        problems.append("namespace content %r, expected %r" % ([x for x in got if x not in want_cmp][:5] or got, [x for x in want_cmp if x not in got][:5] or want_cmp))
    for e in scope.content:
        if isinstance(e, ti.InstantiatedClass) and e.name.startswith("Tm"):
            gm = [(m.name, m.to_cpp()) for m in e.methods]
            if gm != meths:
                problems.append("%s methods %r, expected %r" % (e.name, gm, meths))
            if [c.name for c in e.ctors] != [e.name]:
                problems.append("%s constructors %r" % (e.name, [c.name for c in e.ctors]))
    if problems:
        return _fail(text=text, problems=problems[:5])
    return True


def c08_product(p: int, l0: int, l1: int, l2: int, mp: int, ml: int, fp: int, fl: int) -> bool:
    """
    Class template with 1-3 parameters and 0-3 instantiations each, member template with 0-2 parameters, function
    template with 0-2 parameters: exactly the Cartesian product, first parameter slowest, in declaration order,
    named Name+Capitalised args and referring to Name<args> in the template's namespace; nothing when a list is empty.
    pre: 1 <= p <= 3 and 0 <= l0 <= 3 and 0 <= l1 <= 3 and 0 <= l2 <= 3 and 0 <= mp <= 2 and 1 <= ml <= 2 and 0 <= fp <= 2 and 0 <= fl <= 3
    post: _
    """
    LMAX = 4 if THOROUGH else 3            # quick: 0-2 instantiations per list
    p, l0, mp, fp = pick(p, 1, 4), pick(l0, 0, LMAX), pick(mp, 0, 3), pick(fp, 0, 3)
    l1 = pick(l1, 0, LMAX) if p >= 2 else 0
    l2 = pick(l2, 0, 4) if (p >= 3 and THOROUGH) else ((l0 + l1) % 4 if p >= 3 else 0)
    ml = pick(ml, 1, 3) if mp else 1
    fl = (l0 + 1) % 4
    with concrete():
        ok = check(p, [l0, l1, l2], mp, [ml, 2 + (l0 % 2)], fp, [fl, 2], 0, 0, (p + l0 + mp) % 3)       # member template: 1-2 x 2-3 instantiations
    reached({"p": p, "lens": [l0, l1, l2], "mp": mp, "fp": fp} if (not ok or (p == 2 and l0 == 2 and l1 == 3)) else None)
    return ok


def c08_typedefs(td_kind: int, td_place: int, p: int, nsdepth: int, l0: int) -> bool:
    """
    typedef of a class template / function template / forward-declared foreign template, placed before or after
    its target, in the target's namespace, at global scope before or after its namespace block, in a nested namespace
    or in a sibling namespace after it: exactly one
    further instantiation carrying the typedef's name and referring to Name<args> in the TEMPLATE's namespace.
    pre: 1 <= td_kind <= 3 and 0 <= td_place <= 5 and 1 <= p <= 2 and 0 <= nsdepth <= 2 and 0 <= l0 <= 2
    post: _
    """
    td_kind, td_place, p, nsdepth = pick(td_kind, 1, 4), pick(td_place, 0, 6), pick(p, 1, 3), pick(nsdepth, 0, 3)
    l0 = pick(l0, 0, 3) if THOROUGH else (td_kind + td_place + p + nsdepth) % 3          # quick: the list length is derived
    with concrete():
        ok = check(p, [l0, 1, 0], 1, [1, 1], p, [l0, 1], td_kind, td_place, nsdepth)
    reached({"typedef": td_kind, "place": td_place, "p": p, "nsdepth": nsdepth})
    return ok


def check_bare(kind, nsdepth, p, extra):
    """typedef written before (outside) the namespace of its template; the template's namespace holds only templates
    without instantiation lists (extra=0), or also another declaration (extra=1..3)"""
    nss = ("top", "mid", "low")[:nsdepth]
    q = "".join(x + "::" for x in nss)
    args = [ARGS[(1 + i) % len(ARGS)] for i in range(p)]
    head = "template<%s>" % ", ".join(PARAMS[:p])
    if kind == 0:
        tm = "%s class Tm { Tm(%s a); %s get() const; };" % (head, PARAMS[0], PARAMS[0])
        td = "typedef %sTm<%s> TdBare;" % (q, ", ".join(a[0] for a in args))
        want = ("class", "TdBare", "%sTm<%s>" % (q, ", ".join(a[2] for a in args)))
    else:
        tm = "template<T> class Other { Other(); }; class Foreign;"
        td = "typedef %sForeign<%s> TdBare;" % (q, args[0][0])
        want = ("declaration", "TdBare", "%sForeign<%s>" % (q, args[0][2]))
    filler = ["", "class Plain { Plain(); };", "enum Col { R };", "template<W = {double}> class Enumerated { Enumerated(); };"][extra]
    text = ("namespace ns { class A { A(); }; }\nnamespace other { namespace deep { class B { B(); }; } }\n" + td + "\n" +
            "".join("namespace %s { " % x for x in nss) + tm + " " + filler + " }" * nsdepth)
    mod = ti.instantiate_namespace(parser.Module.parseString(text))
    got = [(kind_of(e), e.name, e.to_cpp()) for e in mod.content if kind_of(e) in ("class", "declaration") and e.name == "TdBare"]
    problems = []
    if got != [want]:
        problems.append("typedef instantiation %r, expected %r" % (got, want))
    for e in mod.content:
        if e.name == "TdBare" and isinstance(e, ti.InstantiatedClass):
            if e.namespaces() != [""] + list(nss):
                problems.append("namespaces() of the typedef'd class %r, template lives in %r" % (e.namespaces(), list(nss)))
            if [m.to_cpp() for m in e.methods] != ["get"] or [c.name for c in e.ctors] != ["TdBare"]:
                problems.append("members %r %r" % ([m.to_cpp() for m in e.methods], [c.name for c in e.ctors]))
    if problems:
        return _fail(text=text, problems=problems)
    return True


def c08_typedef_outside(kind: int, nsdepth: int, p: int, extra: int) -> bool:
    """
    typedef written outside (before) the namespace of its template, where that namespace holds nothing but
    un-enumerated templates (or one more declaration): the instantiation still refers to Name<args> in the
    template's namespace and reports the template's namespaces.
    pre: 0 <= kind <= 1 and 1 <= nsdepth <= 3 and 1 <= p <= 2 and 0 <= extra <= 3
    post: _
    """
    kind, nsdepth, p, extra = pick(kind, 0, 2), pick(nsdepth, 1, 4), pick(p, 1, 3), pick(extra, 0, 4)
    with concrete():
        ok = check_bare(kind, nsdepth, p, extra)
    reached({"kind": kind, "nsdepth": nsdepth, "p": p, "extra": extra})
    return ok


# ---------------------------------------------------------------- two templates with the SAME name in different namespaces
SAME_LAYOUTS = [(("ns1",), ("ns2",)), (("gtsam",), ()), (("a", "b"), ("b",)), (("lib", "a"), ("lib", "b", "c")), ((), ("inner",))]


def build_same_name(layout, order, with_first=True, with_second=True, where=0):
    """typedefs of both templates written in ONE block: where=0 at global scope ahead of the namespaces that define them;
    where=1 inside (a separate block of) the outermost namespace of one of the templates, ahead of them — the names stay
    qualified from the ROOT, although one of them could also be read relative to that namespace; where=2 the same block
    after the templates"""
    n1, n2 = SAME_LAYOUTS[layout]
    q1, q2 = "".join(x + "::" for x in n1), "".join(x + "::" for x in n2)
    tds = []
    if with_first:
        tds.append("typedef %sBox<double> BoxA;" % q1)
    if with_second:
        tds.append("typedef %sBox<int> BoxB;" % q2)
    if order:
        tds.reverse()

    def block(path, body):
        return "".join("namespace %s { " % x for x in path) + body + " }" * len(path)
    t1 = "template<T> class Box { Box(T a); T first() const; };"
    t2 = "template<T> class Box { Box(); void second(T b) const; static int Count(); };"
    b1 = (block(n1, t1) if n1 else t1) if with_first else ""
    b2 = (block(n2, t2) if n2 else t2) if with_second else ""
    if where and tds:
        # inside the outermost namespace block of one of the templates — the SAME block, so that a name read relative to
        # it would find that block's template: `namespace gtsam { typedef Box<int> BoxB; template<T> class Box {...}; }`
        tdtext = " ".join(tds)
        host = 1 if (n1 and with_first) else (2 if (n2 and with_second) else 0)
        if host == 0:
            tds = ["namespace %s { %s }" % ((n1 or n2)[0], tdtext)]
            where = 1 if where == 1 else 2
            parts = (tds if where == 1 else []) + [x for x in (b1, b2) if x] + (tds if where == 2 else [])
        else:
            b = b1 if host == 1 else b2
            if where == 1:
                k = b.index("{") + 1
                b = b[:k] + " " + tdtext + b[k:]
            else:
                k = b.rindex("}")
                b = b[:k] + tdtext + " " + b[k:]
            if host == 1:
                b1 = b
            else:
                b2 = b
            parts = [x for x in (b1, b2) if x]
    else:
        parts = tds[:] + [x for x in (b1, b2) if x]
    want = {}
    if with_first:
        want["BoxA"] = ("%sBox<double>" % q1, ["first"], [""] + list(n1))
    if with_second:
        want["BoxB"] = ("%sBox<int>" % q2, ["second"], [""] + list(n2))
    return "\n".join(parts), want


def find_all(ns, name, out):
    for e in ns.content:
        if isinstance(e, parser.Namespace):
            find_all(e, name, out)
        elif getattr(e, "name", None) == name and isinstance(e, ti.InstantiatedClass):
            out.append(e)
    return out


def check_same_name(layout, order, where=0):
    text, want = build_same_name(layout, order, where=where)
    problems = []
    try:
        mod = ti.instantiate_namespace(parser.Module.parseString(text))
    except Exception as ex:
        return _fail(text=text, problems=["raised %r" % ex])
    for alias, (cpp, meths, nss) in want.items():
        found = find_all(mod, alias, [])
        if len(found) != 1:
            problems.append("%d instantiations named %s" % (len(found), alias))
            continue
        c = found[0]
        if c.to_cpp() != cpp or [m.name for m in c.methods] != meths or c.namespaces() != nss:
            problems.append("%s is %s with methods %r in %r; its typedef names %s (methods %r, namespace %r)" % (
                alias, c.to_cpp(), [m.name for m in c.methods], c.namespaces(), cpp, meths, nss))
    if problems:
        return _fail(text=text, problems=problems)
    return True


def c08_same_name_templates(layout: int, order: int, where: int) -> bool:
    """
    Two class templates with the same name in different namespaces (siblings; namespaced and global; one path a suffix of
    the other; nested), each instantiated by a typedef, both typedefs in one block — at global scope, or inside a
    namespace from which one of the (root-qualified) names could also be read relatively, before or after the
    templates — in either order: each alias is the instantiation of the template its typedef names from the root.
    pre: 0 <= layout < len(SAME_LAYOUTS) and 0 <= order <= 1 and 0 <= where <= 2
    post: _
    """
    layout, order, where = pick(layout, 0, len(SAME_LAYOUTS)), pick(order, 0, 2), pick(where, 0, 3)
    with concrete():
        ok = check_same_name(layout, order, where)
    reached({"layout": layout, "order": order, "where": where})
    return ok


# ---------------------------------------------------------------- the SAME typedef name in namespaces with the same leaf name
ALIAS_LAYOUTS = [(("x", "detail"), ("y", "detail")), (("a", "detail"), ("b", "c", "detail")), (("p", "q", "r"), ("r",)), (("m", "n"), ("n", "m", "n"))]


def build_same_alias(layout, kind, with_first=True, with_second=True):
    """two typedefs, both called Alias, in two namespaces whose innermost names are equal, each naming a template of its own
    outermost namespace; kind 0 class templates, 1 function templates, 2 forward-declared foreign templates"""
    n1, n2 = ALIAS_LAYOUTS[layout]
    out, want = [], {}
    for which, (path, on) in enumerate(((n1, with_first), (n2, with_second))):
        if not on:
            continue
        root = path[0] + ("" if which == 0 else "2") if path[0] == (n1, n2)[1 - which][0] else path[0]
        path = (root,) + tuple(path[1:])
        tname = ("Box", "Bag")[which]
        arg = ("double", "int")[which]
        if kind == 0:
            tmpl = ["template<T> class Box { Box(T a); T first() const; };", "template<T> class Bag { Bag(); void second(T b) const; static int Count(); };"][which]
            cpp = "%s::%s<%s>" % (root, tname, arg)
        elif kind == 1:
            tmpl = ["template<T> T Box(T a);", "template<T> void Bag(T a, T b);"][which]
            cpp = "%s<%s>" % (tname, arg)
        else:
            tmpl = "class %s;" % tname
            cpp = "%s::%s<%s>" % (root, tname, arg)
        inner = "typedef %s::%s<%s> Alias;" % (root, tname, arg)
        for nsn in reversed(path[1:]):
            inner = "namespace %s { %s }" % (nsn, inner)
        out.append("namespace %s { %s %s }" % (root, tmpl, inner))
        want["::".join(path)] = (cpp, [["first"], ["second"]][which] if kind == 0 else None, (2 if which else 1) if kind == 1 else None)
    return "\n".join(out), want


def same_alias_results(text):
    mod = ti.instantiate_namespace(parser.Module.parseString(text))
    res = {}

    def visit(ns, path):
        for e in ns.content:
            if isinstance(e, parser.Namespace):
                visit(e, path + [e.name])
            elif getattr(e, "name", None) == "Alias":
                res["::".join(path)] = (e.to_cpp(), [m.name for m in e.methods] if isinstance(e, ti.InstantiatedClass) else None,
                                        len(e.args.list()) if isinstance(e, ti.InstantiatedGlobalFunction) else None)
    visit(mod, [])
    return res


def c08_same_alias(layout: int, kind: int) -> bool:
    """
    Two typedefs with the SAME name in two namespaces whose innermost names are equal (`x::detail::Alias`,
    `y::detail::Alias`; deeper and suffix-related paths), naming different class / function / foreign templates: each
    yields the instantiation of the template it names, and each is what it is without the other (C13's independence).
    pre: 0 <= layout < len(ALIAS_LAYOUTS) and 0 <= kind <= 2
    post: _
    """
    layout, kind = pick(layout, 0, len(ALIAS_LAYOUTS)), pick(kind, 0, 3)
    with concrete():
        problems = []
        try:
            text, want = build_same_alias(layout, kind)
            got = same_alias_results(text)
            if got != want:
                problems.append("instantiations %r, the typedefs name %r" % (got, want))
            for kw in (dict(with_second=False), dict(with_first=False)):
                t1, w1 = build_same_alias(layout, kind, **kw)
                g1 = same_alias_results(t1)
                for k, v in g1.items():
                    if got.get(k) != v:
                        problems.append("%s::Alias is %r alone and %r next to the other typedef" % (k, v, got.get(k)))
        except Exception as ex:
            problems.append("raised %r" % ex)
        ok = not problems or _fail(text=build_same_alias(layout, kind)[0], problems=problems[:4])
    reached({"layout": layout, "kind": kind})
    return ok


TID_LISTS = [
    (["std::vector<double>", "std::vector<int>"], ["Vectordouble", "Vectorint"]),
    (["ns::Cam<ns::CalA>", "ns::Cam<ns::CalB>", "ns::A"], ["CamCalA", "CamCalB", "A"]),
    (["std::vector<double>", "other::vector<double>"], ["Vectordouble", "Vectordouble"]),
    (["a::Point", "b::Point", "double"], ["Point", "Point", "Double"]),
    (["std::map<int, ns::A>", "std::map<int, ns::B>", "std::map<string, ns::A>"], ["MapintA", "MapintB", "MapstringA"]),
]


def c08_template_id_lists(which: int, kind: int, nsdepth: int) -> bool:
    """
    An instantiation list whose entries share their (outer) name — two instantiations of one template, the same template
    name in two namespaces, the same class name in two namespaces: each entry yields the instantiation named
    Name + its flattened names (first letter capitalised, namespaces never part of the name), in list order.
    pre: 0 <= which < len(TID_LISTS) and 0 <= kind <= 1 and 0 <= nsdepth <= 2
    post: _
    """
    which, kind, nsdepth = pick(which, 0, len(TID_LISTS)), pick(kind, 0, 2), pick(nsdepth, 0, 3)
    with concrete():
        insts, sufs = TID_LISTS[which]
        path = ("top", "mid")[:nsdepth]
        decl = ("template<T = {%s}> class Tm { Tm(T t); };" if kind == 0 else "template<T = {%s}> double fn(const T& t);") % ", ".join(insts)
        text = "".join("namespace %s { " % x for x in path) + decl + " }" * nsdepth
        problems = []
        try:
            mod = ti.instantiate_namespace(parser.Module.parseString(text))
            scope = mod
            for n in path:
                scope = [e for e in scope.content if isinstance(e, parser.Namespace) and e.name == n][0]
            got = [e.name for e in scope.content]
            want = [("Tm" if kind == 0 else "fn") + s for s in sufs]
            if got != want:
                problems.append("instantiations named %r, expected %r" % (got, want))
        except Exception as ex:
            problems.append("raised %r" % ex)
        ok = not problems or _fail(text=text, problems=problems)
    reached({"list": TID_LISTS[which][0], "kind": kind})
    return ok


def conds(tier):
    q = tier == "quick"
    t = (lambda x, y: x) if q else (lambda x, y: y)
    M = "harness.c08_product"
    return [
        xh.Cond(M, "c08_product", t(420, 3000), kind="shape-bounded", path_timeout=60, examples=["p=2, l0=2, l1=3, l2=0, mp=1, ml=2, fp=2, fl=2", "p=3, l0=1, l1=0, l2=2, mp=0, ml=1, fp=0, fl=0", "p=1, l0=0, l1=0, l2=0, mp=2, ml=1, fp=1, fl=3"],
                bounds="1-3 class parameters x 0-%s instantiations each (third list %s) x 0-2 member-template parameters x 0-2 function-template parameters" % ("3" if not q else "2", "free, function-template list derived" if not q else "derived")),
        xh.Cond(M, "c08_typedefs", t(300, 1200), kind="shape-bounded", path_timeout=60, examples=["td_kind=1, td_place=2, p=2, nsdepth=1, l0=1", "td_kind=3, td_place=3, p=1, nsdepth=2, l0=0", "td_kind=2, td_place=0, p=1, nsdepth=0, l0=2"],
                bounds="3 typedef targets x 6 placements (in / below / before / after the template's namespace block, sibling namespace) x 1-2 parameters x namespace depth 0-2 x %s" % ("0-2 enumerated instantiations" if not q else "list length derived")),
        xh.Cond(M, "c08_template_id_lists", t(120, 600), kind="shape-bounded", examples=["which=0, kind=0, nsdepth=1", "which=1, kind=1, nsdepth=0", "which=3, kind=0, nsdepth=2", "which=4, kind=0, nsdepth=0"],
                bounds="%d instantiation lists with shared outer names x class | function template x namespace depth 0-2" % len(TID_LISTS)),
        xh.Cond(M, "c08_same_name_templates", t(120, 600), kind="shape-bounded", examples=["layout=0, order=0, where=0", "layout=1, order=0, where=1", "layout=2, order=1, where=1", "layout=4, order=1, where=2"],
                bounds="%d namespace layouts x 2 typedef orders x 3 places of the typedef block" % len(SAME_LAYOUTS)),
        xh.Cond(M, "c08_same_alias", t(120, 400), kind="shape-bounded", examples=["layout=0, kind=0", "layout=1, kind=1", "layout=2, kind=2", "layout=3, kind=0"],
                bounds="%d pairs of namespace paths with equal innermost names x class / function / foreign template; together and alone" % len(ALIAS_LAYOUTS)),
        xh.Cond(M, "c08_typedef_outside", t(120, 600), kind="shape-bounded", examples=["kind=0, nsdepth=2, p=1, extra=0", "kind=1, nsdepth=1, p=1, extra=0", "kind=0, nsdepth=3, p=2, extra=3"],
                bounds="class template / foreign template x namespace depth 1-3 x 1-2 parameters x 4 contents of the template's namespace"),
    ]
