"""C09 — generated pybind11 code is well-formed C++: the four textual obligations the statement lists.

No compiler is part of this technique family; what is decided here, for every shape in the bounds, is:
 (i)   no template parameter of the input survives in the output,
 (ii)  every qualified name is exactly a declared entity (namespace path + name [+ declared member]), a type /
       expression written in the input, or a library name; `::` only ever joins names,
 (iii) lambda parameter count == py::arg count == call argument count for every binding,
 (iv)  brackets and quotes balance in every statement, every statement is terminated.
"""
import os
import re

from harness import pipe, readers, c04, c03_census
from vlib.trace import reached, concrete, pick
from vlib import xh

LAST_FAILURE = None
THOROUGH = os.environ.get("VERIF_TIER", "quick") == "thorough"
LIB_ROOTS = {"py", "pybind11", "std", "boost"}
LIB_CHAINS = {"gtsam::serialize", "gtsam::deserialize", "gtsam::RedirectCout"}


def _fail(**kw):
    global LAST_FAILURE
    LAST_FAILURE = {k: repr(v)[:1800] for k, v in kw.items()}
    return False


TOKEN = re.compile(r'"(?:[^"\\]|\\.)*"|\'(?:[^\'\\]|\\.)*\'|::|[A-Za-z_]\w*|\d[\w.]*|\S')


def chains(text):
    """maximal `a::b::c` chains (with a flag for a leading ::) and the list of malformed :: uses"""
    toks = TOKEN.findall(text)
    out, bad = [], []
    i, n = 0, len(toks)
    ident_re = re.compile(r"[A-Za-z_]\w*$")
    KEYWORDS = {"return", "const", "new", "typedef", "static", "auto", "delete", "else", "case", "void", "unsigned", "signed"}

    class _I:
        @staticmethod
        def match(x):
            return ident_re.match(x) and x not in KEYWORDS
    ident = _I
    while i < n:
        t = toks[i]
        if t == "::" or ident.match(t):
            parts, lead = [], False
            j = i
            if t == "::":
                lead = True
                j += 1
            expect_name = True
            while j < n:
                if expect_name:
                    if ident.match(toks[j]):
                        parts.append(toks[j]); j += 1; expect_name = False
                    else:
                        bad.append("`::` followed by %r" % toks[j])
                        break
                else:
                    if toks[j] == "::":
                        j += 1; expect_name = True
                    else:
                        break
            if expect_name and j >= n and parts:
                bad.append("dangling ::")
            if len(parts) > 1 or lead:
                out.append((lead, tuple(parts)))
            i = max(j, i + 1)
        else:
            i += 1
    return out, bad


def obligations(text, body, declared, tparams, top_ns=()):
    """declared: set of tuples (qualified entity names, members included). Returns list of problems."""
    problems = []
    # (iv) balance and termination
    if not readers.balanced(body):
        problems.append("(iv) unbalanced brackets/quotes in the wrapped block")
    for st in readers.statements(body):
        if not readers.balanced(st):
            problems.append("(iv) unbalanced statement %r" % st[:80])
        if st.count("<") != st.count(">") and "operator" not in st and "py::self" not in st and "->" not in st:
            problems.append("(iv) angle brackets do not balance in %r" % st[:100])
    tail = body.rstrip()
    if tail and not tail.endswith(";"):
        problems.append("(iv) the wrapped block ends in an unterminated construct: %r" % tail[-40:])
    # (iii) arities
    for e in readers.parse_pybind(body):
        for d in e.get("defs", []):
            if "params" in d and "call_args" in d:
                nself = 1 if (d["params"] and d["params"][0][1] == "self") else 0
                if d["name"].startswith("__"):
                    continue              # dunder methods have fixed bodies (std::distance / std::find / py::make_iterator)
                if not (len(d["params"]) - nself == len(d["pyargs"]) == len(d["call_args"])):
                    problems.append("(iii) %s: %d lambda parameters, %d py::arg, %d call arguments" % (d["name"], len(d["params"]) - nself, len(d["pyargs"]), len(d["call_args"])))
            if d["kind"] == "init" and len(d["types"]) != len(d["pyargs"]):
                problems.append("(iii) constructor: %d types, %d py::arg" % (len(d["types"]), len(d["pyargs"])))
    # (i) template parameters
    idents = set(re.findall(r"[A-Za-z_]\w*", re.sub(r'"(?:[^"\\]|\\.)*"', '""', body)))
    for tp in tparams:
        if tp in idents:
            problems.append("(i) template parameter %s survives in the output" % tp)
    # (ii) qualified names
    in_input, _ = chains(text)
    written = {c for _l, c in in_input}
    cs, bad = chains(re.sub(r'"(?:[^"\\]|\\.)*"', '""', body))
    for b in bad:
        problems.append("(ii) " + b)
    for lead, c in cs:
        if c[0] in LIB_ROOTS or "::".join(c) in LIB_CHAINS:
            continue
        if c in declared or c in written:
            continue
        # a written type may be the tail of a declared name (default expressions etc.)
        if any(c == w[-len(c):] for w in written if len(w) >= len(c)):
            continue
        if lead and len(c) == 1:
            continue                      # `::f` — a global function called with an explicit global qualifier
        if lead and any(d[-len(c):] == c for d in declared if len(d) >= len(c)):
            continue                      # continuation of a templated name: `Solver<ns::A>` `::Mode::Fast`
        problems.append("(ii) qualified name %s%s is neither declared nor written in the input" % ("::" if lead else "", "::".join(c)))
    return problems


def census_declared(n0, n1, n2, m0, reopen, hollow):
    text, exps, names = c03_census.build(n0, n1, n2, m0, reopen, hollow)
    declared = set()
    for path, e, mem in exps:
        for kind, name in e:
            base = tuple(path) + (name,)
            if kind == "class":
                orig = re.sub(r"(Double|Int)$", "", name) if name.startswith("T") else name
                if name.startswith("Tb"):
                    orig = "T" + name[2:]
                base = tuple(path) + (orig,)
                declared.add(base)
                for m in ("meth", "smeth", "prop", "print", "lambda", "Inner", "operator"):
                    declared.add(base + (m,))
                for v in ("I1", "I2"):
                    declared.add(base + ("Inner", v))
            elif kind == "enum" and name != "Inner":
                declared.add(base)
                tag = name[1:]
                declared.add(base + ("X" + tag,)); declared.add(base + ("Y" + tag,))
            else:
                declared.add(base)
    return text, declared


def check_module(n0, n1, n2, m0, reopen, topsel, boost, hollow):
    text, declared = census_declared(n0, n1, n2, m0, reopen, hollow)
    names = (c03_census.POOL[n0], c03_census.POOL[n1], c03_census.POOL[n2], c03_census.POOL[m0])
    top = [''] + c03_census.top_path(names, topsel)
    body = pipe.pybind_body(text, top=top, boost=bool(boost))
    problems = obligations(text, body, declared, ["T"])
    # a C++ variable defined twice (a submodule created once per block of a re-opened namespace) or used before its
    # definition does not compile either
    problems += scope_problems(body)
    if problems:
        return _fail(text=text, top=top, problems=problems[:6])
    return True


def _module(n0, n1, m0, topsel, reopen):
    n1, m0, topsel = pick(n1, 0, 3), pick(m0, 0, 3), pick(topsel, 0, 7)
    reopen = pick(reopen, 0, 2) if THOROUGH else (n0 + n1 + m0 + topsel) % 2
    with concrete():
        ok = check_module(n0, n1, (n0 + n1) % 3, m0, reopen, topsel, (n0 + topsel) % 2, 0 if reopen else (n1 + topsel) % 2)
    reached({"n0": n0, "n1": n1, "m0": m0, "topsel": topsel, "reopen": reopen} if not ok else None)
    return ok


def c09_module_a(n1: int, m0: int, topsel: int, reopen: int) -> bool:
    """
    Whole modules (every entity kind in nested / sibling / re-opened namespaces, namespaced variables with and
    without initialisers, enums, operators, templates + typedefs) under every top-namespace choice; outer namespace `a`.
    pre: 0 <= n1 < 3 and 0 <= m0 < 3 and 0 <= topsel < 7 and 0 <= reopen <= 1
    post: _
    """
    return _module(0, n1, m0, topsel, reopen)


def c09_module_b(n1: int, m0: int, topsel: int, reopen: int) -> bool:
    """
    As c09_module_a with outer namespace `b`.
    pre: 0 <= n1 < 3 and 0 <= m0 < 3 and 0 <= topsel < 7 and 0 <= reopen <= 1
    post: _
    """
    return _module(1, n1, m0, topsel, reopen)


def c09_module_ab(n1: int, m0: int, topsel: int, reopen: int) -> bool:
    """
    As c09_module_a with outer namespace `ab`.
    pre: 0 <= n1 < 3 and 0 <= m0 < 3 and 0 <= topsel < 7 and 0 <= reopen <= 1
    post: _
    """
    return _module(2, n1, m0, topsel, reopen)


def _callables(role, n, k, t0, r, flavour):
    n, k, t0, flavour = pick(n, 0, 4), pick(k, 0, 4), pick(t0, 0, c04.NPOOL), pick(flavour, 0, 3)
    r = (t0 + n + role + (pick(r, 0, 2) if THOROUGH else 0) * 5) % c04.NRET
    with concrete():
        if role == 0 and flavour == 2:
            flavour = 0
        fwd_ok = c04.check_callable(c04.ROLES[role], n, k, t0, (t0 * 4 + 5) % c04.NPOOL, (t0 * 7 + 2) % c04.NPOOL, r, flavour, (t0 + n) % 3)
        text, body = c04.LAST_TEXT_BODY
        nss = ("top", "mid")[:(t0 + n) % 3]
        declared = {("ns", "Other"), ("ns", "Color"), ("ns", "Color", "Red"), ("ns", "Color", "Green"), ("ns", "Color", "Blue")}
        for extra in ((), ("doIt",)):
            declared.add(nss + ("Cls",) + extra)
        declared.add(nss + ("doIt",))
        problems = obligations(text, body, declared, ["T", "U"])
        if not fwd_ok:
            # the entities must be used as written: a parameter / callee that differs from the declaration cannot compile against the library
            problems.append("(as written) " + str((c04.LAST_FAILURE or {}).get("problems"))[:400])
        ok = not problems or _fail(text=text, problems=problems[:6], body=body)
    reached({"role": role, "n": n, "k": k, "t0": t0, "flavour": flavour} if not ok else None)
    return ok


def c09_callables_ctor(n: int, k: int, t0: int, r: int, flavour: int) -> bool:
    """
    The callable shapes of C04 (argument types incl. nested template arguments and pointer-qualified templated
    types, defaults containing brackets / quotes / braces, class and member templates): obligations (i)-(iv) and
    "entities used as written" on each output. Constructors.
    pre: 0 <= n <= 3 and 0 <= k <= n and 0 <= t0 < c04.NPOOL and 0 <= r < 2 and 0 <= flavour <= 1
    post: _
    """
    return _callables(0, n, k, t0, r, flavour)


def c09_callables_method(n: int, k: int, t0: int, r: int, flavour: int) -> bool:
    """
    As c09_callables_ctor for const methods.
    pre: 0 <= n <= 3 and 0 <= k <= n and 0 <= t0 < c04.NPOOL and 0 <= r < 2 and 0 <= flavour <= 2
    post: _
    """
    return _callables(1, n, k, t0, r, flavour)


def c09_callables_static(n: int, k: int, t0: int, r: int, flavour: int) -> bool:
    """
    As c09_callables_ctor for static methods.
    pre: 0 <= n <= 3 and 0 <= k <= n and 0 <= t0 < c04.NPOOL and 0 <= r < 2 and 0 <= flavour <= 2
    post: _
    """
    return _callables(3, n, k, t0, r, flavour)


def c09_callables_function(n: int, k: int, t0: int, r: int, flavour: int) -> bool:
    """
    As c09_callables_ctor for free functions.
    pre: 0 <= n <= 3 and 0 <= k <= n and 0 <= t0 < c04.NPOOL and 0 <= r < 2 and 0 <= flavour <= 2
    post: _
    """
    return _callables(4, n, k, t0, r, flavour)


VAR_DEFAULTS = [None, "-9.81", "3", '"a::b, c"', "{1, 2}", "ns::Other(1, 2)", "std::vector<int>()", "(1 + 2)", "'x'", "ns::kOther"]
VAR_TYPES = ["const double", "int", "string", "const std::vector<int>", "ns::Other", "const std::map<string, ns::Other>"]


def c09_variables(d: int, t: int, depth: int, topdepth: int) -> bool:
    """
    Namespaced variables with and without initialisers (numbers, quoted text containing ::, braces, calls,
    template expressions) at namespace depth 0-3 with the top namespace at depth 0..depth.
    pre: 0 <= d < len(VAR_DEFAULTS) and 0 <= t < len(VAR_TYPES) and 0 <= depth <= 3 and 0 <= topdepth <= depth
    post: _
    """
    d, t, depth, topdepth = pick(d, 0, len(VAR_DEFAULTS)), pick(t, 0, len(VAR_TYPES)), pick(depth, 0, 4), pick(topdepth, 0, 4)
    with concrete():
        path = ("n1", "n2", "n3")[:depth]
        dflt = VAR_DEFAULTS[d]
        decl = "%s var%s;" % (VAR_TYPES[t], (" = " + dflt) if dflt is not None else "")
        text = "namespace ns { class Other { Other(); }; }\n" + "".join("namespace %s { " % p for p in path) + decl + " int plain;" + " }" * depth
        body = pipe.pybind_body(text, top=[''] + list(path[:topdepth]))
        declared = {("ns", "Other"), path + ("var",), path + ("plain",)}
        problems = obligations(text, body, declared, [])
        ents = [e for e in readers.parse_pybind(body) if e["ent"] == "attr"]
        want_val = dflt if dflt is not None else "::".join(path + ("var",))
        if [(e["name"], e["value"]) for e in ents] != [("var", want_val), ("plain", "::".join(path + ("plain",)))]:
            problems.append("variables bound as %r, declared value %r" % ([(e["name"], e["value"]) for e in ents], want_val))
        ok = not problems or _fail(text=text, problems=problems, body=body)
    reached({"default": VAR_DEFAULTS[d], "type": VAR_TYPES[t], "depth": depth, "top": topdepth})
    return ok


def c09_this_scoped(ninst: int, member: int, nsdepth: int) -> bool:
    """
    A class template with 1-3 instantiations whose constructor / method / static / property types use `This`,
    `This::Mode` and `T::Value`: in EVERY instantiation's block the types name that instantiation (entities used
    as written), and obligations (i)-(iv) hold.
    pre: 1 <= ninst <= 3 and 0 <= member <= 3 and 0 <= nsdepth <= 2
    post: _
    """
    ninst, member, nsdepth = pick(ninst, 1, 4), pick(member, 0, 4), pick(nsdepth, 0, 3)
    with concrete():
        insts = ["ns::A", "ns::B", "double"][:ninst]
        nss = ("top", "mid")[:nsdepth]
        q = "".join(x + "::" for x in nss)
        mem = ["Solver(const This::Mode& m);", "This::Mode mode(const This& other, T::Value v) const;",
               "static This Make(const This::Mode m);", "This::Mode current;"][member]
        text = ("namespace ns { class A { A(); }; class B { B(); }; }\n" + "".join("namespace %s { " % x for x in nss) +
                "template<T = {%s}> class Solver { enum Mode { Fast, Slow }; %s };" % (", ".join(insts), mem) + " }" * nsdepth)
        body = pipe.pybind_body(text)
        ents = readers.parse_pybind(body)
        problems = []
        for inst in insts:
            cname = "Solver" + inst.split("::")[-1].capitalize()[:1] + inst.split("::")[-1][1:]
            cpp = "%sSolver<%s>" % (q, inst)
            ce = [e for e in ents if e["ent"] == "class" and e["name"] == cname]
            if len(ce) != 1:
                problems.append("%d classes named %s" % (len(ce), cname)); continue
            stmt = ce[0]["stmt"] + " ".join(x["stmt"] for x in ents if x["ent"] == "class-chain" and x.get("target") == ce[0].get("instance"))
            used = set(re.findall(r"Solver<[^>]*>", stmt))
            if used != {"Solver<%s>" % inst}:
                problems.append("block of %s mentions %r" % (cname, sorted(used)))
            mode = "Solver<%s>::Mode" % inst
            if member in (0, 2) and mode not in stmt.replace(cpp + "::Mode::", ""):
                problems.append("block of %s does not use %s" % (cname, mode))
            if member == 1 and (inst + "::Value") not in stmt:
                problems.append("block of %s does not use %s::Value" % (cname, inst))
        declared = {("ns", "A"), ("ns", "B")}
        for extra in ((), ("Mode",), ("Mode", "Fast"), ("Mode", "Slow"), ("mode",), ("Make",), ("current",)):
            declared.add(nss + ("Solver",) + extra)
            declared.add(("Solver",) + extra)                # a scoped `This` is rendered with the class name only (DOCS.md)
        for i in insts:
            declared.add(tuple(i.split("::")) + ("Value",))
        problems += obligations(text, body, declared, ["T"])
        ok = not problems or _fail(text=text, problems=problems[:6], body=body)
    reached({"instantiations": ninst, "member": member, "nsdepth": nsdepth})
    return ok


EXPORT_CLASSES = [
    ("class Plain { Plain(); void serialize() const; void serializable() const; };", "gt::Plain"),
    ("template<A = {int}, B = {double, gt::Plain}> class Pair { Pair(); void serialize() const; void serializable() const; };", None),      # both spellings: still one export each
    ("template<A = {gt::Plain}> class One { One(); void serializable() const; };", None),
    ("template<A = {int}, B = {std::vector<double>}, C = {string}> class Tri { Tri(); void serialize() const; };", None),
]


def c09_exports(mask: int, nsdepth: int) -> bool:
    """
    With serialization enabled: the BOOST_CLASS_EXPORT block of the translation unit — every `typedef T name;`
    names exactly one identifier, every BOOST_CLASS_EXPORT(x) argument is a single identifier or a qualified
    class name without commas, each exported name is declared; brackets balance.
    pre: 1 <= mask < 16 and 0 <= nsdepth <= 2
    post: _
    """
    mask, nsdepth = pick(mask, 1, 16), pick(nsdepth, 0, 3)
    with concrete():
        path = ("gt", "inner")[:max(1, nsdepth)]
        decls = " ".join(c for i, (c, _q) in enumerate(EXPORT_CLASSES) if mask >> i & 1)
        if not (mask & 1):
            decls = "class Plain { Plain(); }; " + decls
        text = "namespace gt { %s%s%s }" % ("namespace inner { " if nsdepth == 2 else "", decls.replace("gt::Plain", "::".join(path) + "::Plain") if nsdepth == 2 else decls, " }" if nsdepth == 2 else "")
        out = pipe.pybind(text, boost=True)
        head = out.split("//BEGIN-WRAPPED")[0].split("\nvoid mod(")[0]
        problems = []
        if not readers.balanced(head):
            problems.append("unbalanced text before the module body")
        idre = r"[A-Za-z_]\w*"
        typedefs = {}
        for line in head.split("\n"):
            line = line.strip()
            if line.startswith("typedef "):
                m = re.match(r"typedef (.+) (%s);$" % idre, line)
                if not m or not readers.balanced(m.group(1)) or m.group(1).count("<") != m.group(1).count(">"):
                    problems.append("ill-formed typedef: %r" % line)
                else:
                    typedefs[m.group(2)] = m.group(1)
            elif line.startswith("BOOST_CLASS_EXPORT"):
                m = re.match(r"BOOST_CLASS_EXPORT\((%s(?:::%s)*(?:<[^,()]*>)?)\)$" % (idre, idre), line)
                if not m:
                    problems.append("ill-formed export: %r" % line)
                elif "::" not in m.group(1) and "<" not in m.group(1) and m.group(1) not in typedefs and m.group(1) != "Plain":
                    problems.append("export of an undeclared name: %r" % line)
        nexp = len(re.findall(r"^BOOST_CLASS_EXPORT", head, re.M))
        want = sum(n for i, n in enumerate((1, 2, 1, 1)) if mask >> i & 1)
        if nexp != want:
            problems.append("%d classes exported, %d serializable class instantiations declared" % (nexp, want))
        ok = not problems or _fail(text=text, problems=problems, head=head[-600:])
    reached({"mask": mask, "nsdepth": nsdepth})
    return ok


def c09_ignore_scopes(sel: int, form: int) -> bool:
    """
    With any subset of 7 classes on the ignore list (spelled exactly, compactly or padded): every statement of the
    module body is a recognised, balanced registration and every py::class_/py::enum_ is attached to a variable that
    the translation unit declares (an ignored class's enums must not be emitted on its missing instance variable).
    pre: 0 <= sel < 128 and 0 <= form <= 2
    post: _
    """
    from harness import c03_census
    sel = pick(sel, 0, 128)
    form = pick(form, 0, 3) if THOROUGH else (sel + 1) % 3
    with concrete():
        ok = c03_census.check_ignore(sel, form, (sel // 5) % 2)
        if not ok:
            global LAST_FAILURE
            LAST_FAILURE = c03_census.LAST_FAILURE
    reached({"sel": sel, "form": form} if (not ok or sel == 24) else None)
    return ok


UNIT_TEXTS = [
    "namespace proj { namespace detail { class A { A(); }; } class B { B(); void run(const proj::detail::A& a) const; }; }",
    "namespace proj { namespace detail { double f(int x); enum E { X, Y }; } }",
    "namespace other { class C { C(); void serialize() const; }; namespace detail { class D { D(); }; } }",
    "class G { G(); }; namespace proj { enum Mode { On, Off }; namespace detail { namespace deep { class H { H(); }; } } }",
    "namespace proj { template<T = {double}> class Tm { Tm(T t); void serialize() const; }; } namespace other { void g(); }",
]
NUT = len(UNIT_TEXTS)
UNIT_TOPS = [[''], ['', 'proj'], ['', 'proj', 'detail']]


def scope_problems(body):
    """registration scopes of one module body: declared once, before use"""
    problems, declared = [], {"m_"}
    for e in readers.parse_pybind(body):
        if e["ent"] == "submodule":
            if e["var"] in declared:
                problems.append("submodule variable %s declared twice" % e["var"])
            if e["parent"] not in declared:
                problems.append("submodule %s created in undeclared %s" % (e["var"], e["parent"]))
            declared.add(e["var"])
        elif e["ent"] in ("class", "enum", "attr"):
            if e["module"] not in declared:
                problems.append("%s %s registered on %s, which this translation unit never declares" % (e["ent"], e["name"], e["module"]))
            if e["ent"] == "class" and e.get("instance"):
                declared.add(e["instance"])
        elif e["ent"] == "chain":
            if e["target"] not in declared:
                problems.append("functions registered on %s, which this translation unit never declares" % e["target"])
        elif e["ent"] == "other":
            problems.append("unrecognised statement %r" % e["stmt"][:80])
    return problems


TID_USES = ["std::vector<T>", "const std::map<string, T>&", "std::pair<int, T>", "std::vector<std::vector<T*>>", "T", "const T&", "std::vector<T::Value>"]


def c09_template_id_arguments(use: int, role: int, how: int) -> bool:
    """
    A template parameter instantiated with a type that is itself a template-id (`ns::Box<double>`, via an instantiation
    list or a typedef) and used bare or nested in other template arguments, in a parameter, a return type, a property or the
    base class: every mention of the class template `ns::Box` in the translation unit carries its template arguments.
    pre: 0 <= use < len(TID_USES) and 0 <= role <= 4 and 0 <= how <= 1
    post: _
    """
    use, role, how = pick(use, 0, len(TID_USES)), pick(role, 0, 5), pick(how, 0, 2)
    with concrete():
        u = TID_USES[use]
        head = "template<T = {ns::Box<double>}> " if how == 0 else "template<T> "
        member = ["Holder(%s a);" % u, "void put(%s a, int n) const;" % u, "%s get() const;" % u.replace("const ", "").rstrip("&"), "static void Make(%s a);" % u,
                  "%s item;" % u.replace("const ", "").rstrip("&")][role]
        base = " : ns::Base<T>" if (use + role) % 2 else ""
        text = ("namespace ns { template<V> class Box { Box(); }; class Plain { Plain(); }; }\n"
                "namespace top { %sclass Holder%s { Holder(); %s }; %s }" % (head, base, member, "typedef top::Holder<ns::Box<double>> HolderBox;" if how else ""))
        problems = []
        try:
            out = pipe.pybind(text)
        except Exception as ex:
            out = ""
            problems.append("raised %r" % ex)
        body = out.split("//BEGIN-WRAPPED\n", 1)[-1]
        bare = re.findall(r"ns::Box(?!<double>)[^\n]{0,30}", body)
        if bare:
            problems.append("class template ns::Box named without its template arguments: %r" % bare[:3])
        if out and not readers.balanced(out):
            problems.append("unbalanced translation unit")
        if out and re.search(r"(?<![A-Za-z0-9_:])T(?![A-Za-z0-9_])", re.sub(r'"(?:[^"\\\\]|\\\\.)*"', '""', body)):
            problems.append("an unsubstituted template parameter T remains")
        ok = not problems or _fail(text=text, problems=problems, body=body[-500:])
    reached({"use": TID_USES[use], "role": role, "how": how})
    return ok


def c09_lookalike_parameters(r: int, a: int, role: int) -> bool:
    """
    Two parameters of one signature whose types differ only INSIDE a template argument (`std::vector<T*> a, std::vector<const T> b`):
    the wrapper lambda declares each with its own C++ type — a lambda that repeats the first type for both does not match
    the declared member and does not compile.  (the type algebra and oracle of c04_all_type_spellings)
    pre: 0 <= r < 48 and 0 <= a < 128 and 0 <= role <= 2
    pre: r % (4 if THOROUGH else 16) == (a + 5) % (4 if THOROUGH else 16)
    post: _
    """
    from harness import c04
    r, a = pick(r, 0, 48), pick(a, 0, 128)
    role = pick(role, 0, 3) if THOROUGH else (a + r) % 3
    with concrete():
        saved = c04.THOROUGH
        c04.THOROUGH = True                    # the role is chosen here, not derived there
        try:
            ok = c04.c04_all_type_spellings(1, r, a, role)
        finally:
            c04.THOROUGH = saved
        if not ok:
            global LAST_FAILURE
            LAST_FAILURE = c04.LAST_FAILURE
    reached({"r": r, "a": a, "role": role} if not ok else None)
    return ok


def c09_second_unit(a: int, b: int, boost: int, top: int) -> bool:
    """
    One wrapper object producing two translation units in a row (as `wrap()` does for main + sub-modules): the SECOND
    unit declares every module variable it uses, once — whatever namespaces the first unit created — and is balanced.
    pre: 0 <= a < NUT and 0 <= b < NUT and 0 <= boost <= 1 and 0 <= top < len(UNIT_TOPS)
    post: _
    """
    a, b, boost, top = pick(a, 0, NUT), pick(b, 0, NUT), pick(boost, 0, 2), pick(top, 0, len(UNIT_TOPS))
    with concrete():
        from gtwrap.pybind_wrapper import PybindWrapper
        w = PybindWrapper(module_name="mod", top_module_namespaces=list(UNIT_TOPS[top]), use_boost_serialization=bool(boost),
                          ignore_classes=[''], module_template=pipe.PYBIND_TPL)
        first = pipe.pybind(UNIT_TEXTS[a], wrapper=w)
        second = pipe.pybind(UNIT_TEXTS[b], wrapper=w)
        problems = []
        for label, out in (("first", first), ("second", second)):
            body = out.split("//BEGIN-WRAPPED\n", 1)[1].split("\n//END-WRAPPED", 1)[0]
            if not readers.balanced(out):
                problems.append("%s unit is unbalanced" % label)
            problems += ["%s unit: %s" % (label, x) for x in scope_problems(body)]
        ok = not problems or _fail(first_text=UNIT_TEXTS[a], second_text=UNIT_TEXTS[b], boost=boost, top=UNIT_TOPS[top], problems=problems[:5])
    reached({"a": a, "b": b, "boost": boost, "top": top} if (not ok or (a == 0 and b == 1)) else None)
    return ok


FOREIGN_TOPS = [[''], ['', 'gtsam'], ['', 'gtsam', 'inner'], ['', 'other']]
FOREIGN_TARGETS = [("other", "namespace other { template<T> class Box { Box(); T get() const; }; class Handle; template<T> T twice(T x); }"),
                   ("lib::deep", "namespace lib { namespace deep { template<T> class Box { Box(); T get() const; }; class Handle; template<T> T twice(T x); } }"),
                   ("", "template<T> class Box { Box(); T get() const; }; class Handle; template<T> T twice(T x);")]


def c09_foreign_typedefs(top: int, target: int, order: int, kind: int) -> bool:
    """
    A typedef written inside the top module's namespace (or below it) that instantiates a class template, a
    forward-declared foreign template or a function template declared in a namespace OUTSIDE the top module, for the
    global and three non-global top modules, the foreign block before or after: every module variable the unit uses is
    declared (once, before use), and the obligations (i)-(iv) hold.
    pre: 0 <= top < len(FOREIGN_TOPS) and 0 <= target < len(FOREIGN_TARGETS) and 0 <= order <= 1 and 0 <= kind <= 2
    post: _
    """
    top, target, order, kind = pick(top, 0, len(FOREIGN_TOPS)), pick(target, 0, len(FOREIGN_TARGETS)), pick(order, 0, 2), pick(kind, 0, 3)
    with concrete():
        q, block = FOREIGN_TARGETS[target]
        qq = q + "::" if q else ""
        td = ["typedef %sBox<gtsam::Point> BoxP;" % qq, "typedef %sHandle<gtsam::Point> HandleP;" % qq, "typedef %stwice<double> twiceD;" % qq][kind]
        mine = "namespace gtsam { class Point { Point(); }; %s namespace inner { class Deep { Deep(); }; %s } }" % (td, td.replace(" BoxP", " BoxQ").replace(" HandleP", " HandleQ").replace(" twiceD", " twiceE"))
        text = "\n".join([block, mine] if order == 0 else [mine, block])
        problems = []
        try:
            body = pipe.pybind_body(text, top=FOREIGN_TOPS[top])
            declared = {("gtsam", "Point"), ("gtsam", "inner", "Deep")} | {tuple(q.split("::")) + (n,) if q else (n,) for n in ("Box", "Handle", "twice")}
            declared |= {d + ("get",) for d in list(declared) if d[-1] == "Box"}
            problems = obligations(text, body, declared, ["T"]) + scope_problems(body)
        except Exception as ex:
            problems.append("raised %r" % ex)
        ok = not problems or _fail(text=text, top=FOREIGN_TOPS[top], problems=problems[:5])
    reached({"top": top, "target": target, "order": order, "kind": kind})
    return ok


def conds(tier):
    q = tier == "quick"
    t = (lambda x, y: x) if q else (lambda x, y: y)
    M = "harness.c09"
    sb = "shape-bounded"
    return [
        xh.Cond(M, "c09_foreign_typedefs", t(180, 600), kind=sb, examples=["top=1, target=0, order=0, kind=0", "top=2, target=1, order=1, kind=1", "top=0, target=2, order=0, kind=2", "top=3, target=0, order=1, kind=0"],
                bounds="4 top modules x 3 foreign namespaces x 2 block orders x class / forward-declared / function template"),
        xh.Cond(M, "c09_module_a", t(420, 3000), kind=sb, path_timeout=90, examples=["n1=1, m0=2, topsel=1, reopen=1"], bounds="outer namespace a: 9 name combinations x 7 top-namespace choices%s" % (" x re-opened" if not q else "; re-open derived")),
        xh.Cond(M, "c09_module_b", t(420, 3000), kind=sb, path_timeout=90, examples=["n1=0, m0=0, topsel=4, reopen=0"], bounds="outer namespace b: as c09_module_a"),
        xh.Cond(M, "c09_module_ab", t(420, 3000), kind=sb, path_timeout=90, examples=["n1=2, m0=0, topsel=6, reopen=0"], bounds="outer namespace ab: as c09_module_a"),
        xh.Cond(M, "c09_callables_ctor", t(420, 3000), kind=sb, path_timeout=90, examples=["n=2, k=1, t0=7, r=0, flavour=1"],
                bounds="ctor: 0-3 args x defaults x %d first-argument types x template flavours%s" % (c04.NPOOL, " x 2 return-shape offsets" if not q else "")),
        xh.Cond(M, "c09_callables_method", t(420, 3000), kind=sb, path_timeout=90, examples=["n=2, k=1, t0=7, r=0, flavour=1"],
                bounds="method: 0-3 args x defaults x %d first-argument types x template flavours%s" % (c04.NPOOL, " x 2 return-shape offsets" if not q else "")),
        xh.Cond(M, "c09_callables_static", t(420, 3000), kind=sb, path_timeout=90, examples=["n=3, k=3, t0=15, r=0, flavour=2"],
                bounds="static: 0-3 args x defaults x %d first-argument types x template flavours%s" % (c04.NPOOL, " x 2 return-shape offsets" if not q else "")),
        xh.Cond(M, "c09_callables_function", t(420, 3000), kind=sb, path_timeout=90, examples=["n=3, k=3, t0=2, r=0, flavour=2"],
                bounds="function: 0-3 args x defaults x %d first-argument types x template flavours%s" % (c04.NPOOL, " x 2 return-shape offsets" if not q else "")),
        xh.Cond(M, "c09_this_scoped", t(200, 600), kind=sb, examples=["ninst=2, member=0, nsdepth=1", "ninst=3, member=1, nsdepth=0", "ninst=2, member=3, nsdepth=2"],
                bounds="1-3 instantiations x 4 member kinds using This / This::Mode / T::Value x namespace depth 0-2"),
        xh.Cond(M, "c09_exports", t(200, 600), kind=sb, examples=["mask=15, nsdepth=1", "mask=2, nsdepth=2", "mask=9, nsdepth=0"],
                bounds="15 subsets of 4 serializable classes (plain, 2- and 3-parameter templates, nested template argument) x namespace depth"),
        xh.Cond(M, "c09_ignore_scopes", t(300, 1200), kind=sb, examples=["sel=8, form=1", "sel=40, form=2", "sel=127, form=0"],
                bounds="128 subsets of 7 classes on the ignore list x %s" % ("3 spellings" if not q else "spelling derived (shifted against C03's derivation)")),
        xh.Cond(M, "c09_template_id_arguments", t(200, 600), kind=sb, examples=["use=0, role=1, how=0", "use=3, role=2, how=1", "use=6, role=0, how=0", "use=1, role=4, how=1"],
                bounds="%d uses of a parameter instantiated with a template-id x 5 member roles x {instantiation list, typedef}" % len(TID_USES)),
        xh.Cond(M, "c09_lookalike_parameters", t(300, 1800), kind=sb, path_timeout=60, examples=["r=11, a=22, role=0", "r=0, a=11, role=1", "r=47, a=26, role=2"],
                bounds="%s (root, leaf) pairs of the C01 type algebra, first parameter and its look-alike twin, method | static | function" % ("every fourth" if not q else "every sixteenth")),
        xh.Cond(M, "c09_second_unit", t(200, 600), kind=sb, examples=["a=0, b=1, boost=0, top=0", "a=3, b=0, boost=1, top=1", "a=2, b=2, boost=0, top=2"],
                bounds="%d x %d texts with overlapping namespace names wrapped in sequence by one wrapper x serialization x 3 top namespaces" % (NUT, NUT)),
        xh.Cond(M, "c09_variables", t(300, 900), kind=sb, examples=["d=1, t=0, depth=1, topdepth=0", "d=3, t=2, depth=3, topdepth=2", "d=0, t=4, depth=2, topdepth=1"],
                bounds="%d initialiser shapes x %d types x namespace depth 0-3 x top-namespace depth" % (len(VAR_DEFAULTS), len(VAR_TYPES))),
    ]
