"""C10 — the MATLAB toolbox contains exactly the declared classes, functions, enums (shape-bounded census)."""
import os
import re

from gtwrap.matlab_wrapper import MatlabWrapper
import gtwrap.interface_parser as parser
import gtwrap.template_instantiator as instantiator

from harness import pipe, mshape as ms
from harness.c16 import patched_io
from vlib.trace import reached, concrete, pick
from vlib import xh

LAST_FAILURE = None
THOROUGH = os.environ.get("VERIF_TIER", "quick") == "thorough"
NC = ms.N_CLASS_CODES
REPS = [0, 5, 27, 70, 101, 143, 190, 233, 286, 311, 350, 383]
NREP = len(REPS)

# namespace layouts: list of (namespace path, slot) — slot i receives the i-th group of declarations
LAYOUTS = [
    [((), 0), ((), 1)],                                            # everything at global scope
    [(("top",), 0), (("top",), 1)],
    [(("top", "mid"), 0), (("top",), 1)],
    [(("alpha", "detail"), 0), (("beta", "detail"), 1)],           # two namespaces with the same leaf name
    [(("top",), 0), (("other",), 1)],                              # note: `top` is re-opened below for layout 5
    [(("top",), 0), (("top",), 1)],                                # re-opened: rendered as two separate blocks
    [(("a", "b", "c"), 0), ((), 1)],
]
NL = len(LAYOUTS)
ENUMS = [[], [("Color", ["Red", "Green", "Blue"])], [("Color", ["Red"]), ("Shade", ["Dark", "Light"])]]


def _fail(**kw):
    global LAST_FAILURE
    LAST_FAILURE = {k: repr(v)[:1800] for k, v in kw.items()}
    return False


def block(path, body):
    return "".join("namespace %s { " % p for p in path) + body + " }" * len(path)


def build(code_a, code_b, layout, nenum, cls_enum, fshape, ignore_which, ser=(0, 0)):
    """returns (text, expectation dict)"""
    (p0, _), (p1, _) = LAYOUTS[layout]
    a = ms.decode_class(code_a, 0, None)
    b = ms.decode_class(code_b, 1, None)
    for d, p in ((a, p0), (b, p1)):
        d["path"] = p
        if d["base"] == 1:
            d["base_name"] = None          # "previous class" only makes sense inside one namespace; keep external/none here
            d["base"] = 0
    # (with namespace enums present the class also declares an enum of the SAME name as the namespace-level one next to it)
    a["enums"] = ([("Kind", ["K1", "K2", "K3"])] + ([("Color", ["Cyan", "Magenta"])] if nenum else [])) if cls_enum else []
    b["enums"] = []
    a["serialize"], b["serialize"] = bool(ser[0]), bool(ser[1])
    funcs = ms.FUNC_SHAPES[fshape]
    enums = ENUMS[nenum]

    def cls_text(d):
        t = ms.render_class(d, d["serialize"])
        if d["enums"]:
            t = t.replace("{ ", "{ " + " ".join("enum %s { %s };" % (n, ", ".join(v)) for n, v in d["enums"]) + " ", 1)
        return t
    body0 = cls_text(a) + " " + " ".join("enum %s { %s };" % (n, ", ".join(v)) for n, v in enums)
    body1 = cls_text(b) + " " + ms.render_functions(funcs)
    text = ms.PRELUDE + block(p0, body0) + "\n" + block(p1, body1) + "\n"
    ignore = []
    if ignore_which == 1:
        ignore = ["::".join(p0 + (a["name"],))]
    elif ignore_which == 2:
        ignore = ["::".join(p1 + (b["name"],))]
    exp = {"classes": [(d, "::".join(d["path"] + (d["name"],)) in ignore) for d in (a, b)], "enums": [(p0, n, v) for n, v in enums],
           "funcs": [(p1, n) for n in dict.fromkeys(f[1] for f in funcs)], "func_decls": funcs, "ignore": ignore}
    return text, exp


def pkg(path):
    return "".join("+%s/" % p for p in path)


def check_census(text, exp, files, cpp, via, boost=False):
    problems = []
    want = {"+ns/Other.m", "+ext/Root.m", "mod_wrapper.cpp"}
    for d, ignored in exp["classes"]:
        if not ignored:
            want.add(pkg(d["path"]) + d["name"] + ".m")
            for n, _v in d["enums"]:
                want.add(pkg(d["path"]) + "+%s/" % d["name"] + n + ".m")
    for p, n, _v in exp["enums"]:
        want.add(pkg(p) + n + ".m")
    for p, n in exp["funcs"]:
        want.add(pkg(p) + n + ".m")
    if set(files) != want:
        problems.append("%s: files %r, declared %r" % (via, sorted(set(files) - want), sorted(want - set(files))))
    if sum(1 for f in files if f.endswith(".cpp")) != 1:
        problems.append("%s: not exactly one MEX source" % via)
    for d, ignored in exp["classes"]:
        flat = "".join(d["path"]) + d["name"]
        cppname = "::".join(d["path"] + (d["name"],))
        key = pkg(d["path"]) + d["name"] + ".m"
        has_collector = ("typedef std::set<std::shared_ptr<%s>*> Collector_%s;" % (cppname, flat)) in cpp and \
                        ("static Collector_%s collector_%s;" % (flat, flat)) in cpp
        in_delete = ("for(Collector_%s::iterator iter = collector_%s.begin();" % (flat, flat)) in cpp
        in_rtti = ('types.insert(std::make_pair(typeid(%s).name(), "%s"));' % (cppname, flat)) in cpp
        if ignored:
            if has_collector or in_delete or in_rtti or key in files:
                problems.append("ignored class %s still has artefacts" % cppname)
            continue
        if not has_collector:
            problems.append("class %s: collector typedef/static missing" % cppname)
        if not in_delete:
            problems.append("class %s: not freed in _deleteAllObjects" % cppname)
        if bool(d["virtual"]) != in_rtti:
            problems.append("class %s: virtual=%s but RTTI registration=%s" % (cppname, bool(d["virtual"]), in_rtti))
        m = files.get(key)
        if m is None:
            continue
        base = (d["base_name"] or "handle").replace("::", ".")
        if ("classdef %s < %s\n" % (d["name"], base)) not in m:
            problems.append("%s: classdef header %r, declared base %s" % (key, re.findall(r"classdef .*", m)[:1], base))
        if ("ptr_%s = 0" % flat) not in m:
            problems.append("%s: pointer property ptr_%s missing" % (key, flat))
        if m.count("function obj = %s(varargin)" % d["name"]) != 1 or m.count("function delete(obj)") != 1:
            problems.append("%s: constructor / delete missing or duplicated" % key)
        ser = bool(d.get("serialize")) and boost
        mnames = list(dict.fromkeys(x[1] for x in d["methods"])) + (["string_serialize"] if ser else [])
        got_m = re.findall(r"function varargout = (\w+)\(this, varargin\)", m)
        if sorted(got_m) != sorted(mnames):
            problems.append("%s: methods %r, declared %r" % (key, got_m, mnames))
        snames = list(dict.fromkeys(x[1] for x in d["statics"])) + (["string_deserialize"] if ser else [])
        for fn, role in (("function sobj = saveobj(obj)", "_string_serialize_"), ("function obj = loadobj(sobj)", "_string_deserialize_")):
            if m.count(fn) != int(ser):
                problems.append("%s: %r appears %d times, serializable=%s" % (key, fn, m.count(fn), ser))
            n = len(re.findall(r"^void %s%s\d+\(" % (flat, role), cpp, re.M))
            if n != int(ser):
                problems.append("class %s: %d MEX %s routines, serializable=%s" % (cppname, n, role.strip("_"), ser))
        stat = m[m.index("methods(Static = true)"):] if "methods(Static = true)" in m else ""
        got_s = re.findall(r"function varargout = (\w+)\(varargin\)", stat)
        if sorted(got_s) != sorted(snames):
            problems.append("%s: static methods %r, declared %r" % (key, got_s, snames))
        for _t, pn in d["props"]:
            if m.count("function varargout = get.%s(this)" % pn) != 1 or m.count("function set.%s(this, value)" % pn) != 1:
                problems.append("%s: get/set for property %s" % (key, pn))
        if len(re.findall(r"function (?:varargout = get|set)\.", m)) != 2 * len(d["props"]):
            problems.append("%s: undeclared property accessors" % key)
    for p, n, vals in exp["enums"] + [(d["path"] + (d["name"],), n, v) for d, ig in exp["classes"] if not ig for n, v in d["enums"]]:
        m = files.get(pkg(p) + n + ".m")
        if m is None:
            continue
        got = re.findall(r"^\s+(\w+)\((\d+)\)$", m, re.M)
        if got != [(v, str(i)) for i, v in enumerate(vals)] or ("classdef %s < uint32" % n) not in m:
            problems.append("enum %s: enumerators %r, declared %r" % (n, got, vals))
    return problems


def check(code_a, code_b, layout, nenum, cls_enum, fshape, ignore_which, ser=(0, 0), boost=False):
    text, exp = build(code_a, code_b, layout, nenum, cls_enum, fshape, ignore_which, ser)
    files, cpp, w = pipe.matlab(text, ignore=exp["ignore"] or [""], boost=boost)
    problems = check_census(text, exp, files, cpp, "content tree", boost)
    # every file is produced once (a second emission of the same path overwrites the first on disk)
    order = []
    pipe.flatten_content(w.content, "", {}, order)
    dup = sorted({p_ for p_ in order if order.count(p_) > 1 and p_.endswith(".m")})          # (the MEX source is written twice by design: headers, then the whole file)
    if dup:
        problems.append("emitted more than once: %r" % dup)
    # every declared overload of a free function is offered by its one function file
    for p_, n in exp["funcs"]:
        m = files.get(pkg(p_) + n + ".m")
        if m is None:
            continue
        want_ar = sorted(len(v) for r_, n_, a_ in exp.get("func_decls", []) if n_ == n for v in ms.expand(a_))
        got_ar = sorted(int(x) for x in re.findall(r"length\(varargin\) == (\d+)", m))
        if want_ar and got_ar != want_ar:
            problems.append("%s offers arities %r, declared overloads give %r" % (pkg(p_) + n + ".m", got_ar, want_ar))
    # second reading: through the real generate_content on the recorder file system (path assembly)
    with patched_io() as rec:
        w2 = pipe.new_matlab_wrapper(ignore=exp["ignore"] or [""], boost=boost)
        module = instantiator.instantiate_namespace(parser.Module.parseString(text))
        w2.wrap_namespace(module)
        w2.generate_wrapper(module)
        w2.generate_content(w2.content, "tb")
        disk = {k[len("tb/"):]: v for k, v in rec.written.items()}
    problems += check_census(text, exp, disk, disk.get("mod_wrapper.cpp", ""), "written files", boost)
    if problems:
        return _fail(text=text, problems=problems[:6])
    return True


BREPS = [1, 5, 8, 11]


def _census(a, b, layout, ign, parity):
    a, b = pick(a, 0, NREP), pick(b, 0, NREP if THOROUGH else len(BREPS))
    layout = pick(layout, 0, 4 if parity == 0 else 3) * 2 + parity
    if not THOROUGH:
        b = BREPS[b]
    nenum, cls_enum, fshape = (a + layout) % 3, (a + b) % 2, (b + layout) % 4
    ign = pick(ign, 0, 3) if THOROUGH else (a + b + layout) % 3
    with concrete():
        ok = check(REPS[a], REPS[b], layout, nenum, cls_enum, fshape, ign)
    reached({"a": REPS[a], "b": REPS[b], "layout": layout} if (not ok or (a == 4 and b == 8)) else None)
    return ok


def c10_census_even(a: int, b: int, layout: int, ign: int) -> bool:
    """
    Files (classdefs, function files, enum classdefs in their +package folders, one MEX source), classdef
    contents, enumerator numbering and MEX preamble (collectors, RTTI, delete-all) for two classes in the
    namespace layouts 0, 2, 4, 6 (global, nested, two unrelated namespaces, deep + global), with enums and an ignore entry.
    pre: 0 <= a < NREP and 0 <= b < NREP and 0 <= layout < 4 and 0 <= ign <= 2
    post: _
    """
    return _census(a, b, layout, ign, 0)


def c10_census_odd(a: int, b: int, layout: int, ign: int) -> bool:
    """
    As c10_census_even for layouts 1, 3, 5 (one namespace, two namespaces with the SAME leaf name, a re-opened namespace).
    pre: 0 <= a < NREP and 0 <= b < NREP and 0 <= layout < 3 and 0 <= ign <= 2
    post: _
    """
    return _census(a, b, layout, ign, 1)


def _all_classes(code, layout, lo):
    code = pick(code, lo, lo + NC // 2)
    layout = (code + pick(layout, 0, 2)) % NL if THOROUGH else code % NL
    with concrete():
        ok = check(code, REPS[code % NREP], layout, code % 3, code % 2, code % 4, (code // 3) % 3)
    reached({"code": code, "layout": layout} if not ok else None)
    return ok


def c10_all_classes_lo(code: int, layout: int) -> bool:
    """
    Every class shape once (first half of the shape codes).
    pre: 0 <= code < NC // 2 and 0 <= layout < 2
    post: _
    """
    return _all_classes(code, layout, 0)


def c10_all_classes_hi(code: int, layout: int) -> bool:
    """
    Every class shape once (second half of the shape codes).
    pre: NC // 2 <= code < NC and 0 <= layout < 2
    post: _
    """
    return _all_classes(code, layout, NC // 2)


SREPS_CODES = [6, 30, 102, 198, 126, 19, 331]      # ctor only / methods / statics only / properties only / methods+statics / virtual two ctors / everything
SREPS = SREPS_CODES


def c10_serialization(a: int, b: int, sa: int, sb: int, boost: int, layout: int, ign: int) -> bool:
    """
    Two classes in wrapping order, each with or without `void serialize() const;`, serialization switched on or off:
    string_serialize/saveobj and the static string_deserialize/loadobj (and their MEX routines) appear exactly
    for the serializable classes when the option is on, and nowhere otherwise — whatever class was wrapped before.
    pre: 0 <= a < len(SREPS) and 0 <= b < len(SREPS) and 0 <= sa <= 1 and 0 <= sb <= 1 and 0 <= boost <= 1 and 0 <= layout <= 1 and 0 <= ign <= 1
    pre: THOROUGH or (b < 4 and sa + boost >= 1)
    post: _
    """
    a, b, sb = pick(a, 0, len(SREPS)), pick(b, 0, len(SREPS) if THOROUGH else 4), pick(sb, 0, 2)
    if THOROUGH:
        sa, boost = pick(sa, 0, 2), pick(boost, 0, 2)
    else:                                  # quick: (sa, boost) in {(1,1), (1,0), (0,1)}
        mode = pick(sa + 2 * boost, 1, 4)
        sa, boost = mode % 2, mode // 2
    layout = pick(layout, 0, 2) if THOROUGH else (a + b) % 2
    ign = pick(ign, 0, 2) if THOROUGH else (a + sb) % 2
    with concrete():
        ok = check(SREPS_CODES[a], SREPS_CODES[b], 1 + 2 * layout, 0, (a + b) % 2, 0, ign, (sa, sb), bool(boost))
    reached({"a": SREPS_CODES[a], "b": SREPS_CODES[b], "ser": (sa, sb), "boost": boost} if (not ok or (a == 1 and b == 2 and sa and boost)) else None)
    return ok


def check_aliases(variant, virt, nsdepth, members, ign=0):
    """the same template instantiation under two MATLAB names (two typedefs, or an instantiation list plus a typedef)"""
    path = ("geo", "deep")[:nsdepth]
    q = "".join(x + "::" for x in path)
    v = "virtual " if virt else ""
    body = ["Box(T t);", "Box(T t); T get() const; static %sBox<T> Make(T t);" % q, "Box(); T item;"][members]
    if variant == 0:
        decl = "template<T> %sclass Box { %s }; typedef %sBox<float> BoxF; typedef %sBox<float> Cube; typedef %sBox<int> BoxI;" % (v, body, q, q, q)
        names = ["BoxF", "Cube", "BoxI"]
    elif variant == 1:
        decl = "template<T = {double, int}> %sclass Box { %s }; typedef %sBox<int> Crate;" % (v, body, q)
        names = ["BoxDouble", "BoxInt", "Crate"]
    else:
        decl = "template<T = {double}> %sclass Box { %s }; typedef %sBox<double> Alias; typedef %sBox<double> Alias2; class Plain { Plain(); };" % (v, body, q, q)
        names = ["BoxDouble", "Alias", "Alias2", "Plain"]
    text = "".join("namespace %s { " % x for x in path) + decl + " }" * nsdepth
    ignored = names[1] if ign else None
    files, cpp, _w = pipe.matlab(text, ignore=[q + ignored] if ign else [""])
    problems = []
    flatns = "".join(path)
    if ign:
        flat = flatns + ignored
        left = [what for what, present in (("classdef file", pkg(path) + ignored + ".m" in files), ("collector", ("Collector_%s;" % flat) in cpp),
                                            ("clean-up entry", ("collector_%s.begin()" % flat) in cpp), ("RTTI entry", ('"%s"));' % flat) in cpp),
                                            ("typedef", re.search(r"^typedef [^;]* %s;$" % ignored, cpp, re.M) is not None),
                                            ("routines", re.search(r"^void %s_\w+_\d+\(" % flat, cpp, re.M) is not None)) if present]
        if left:
            problems.append("ignored class %s%s still has: %r" % (q, ignored, left))
    for n in names:
        if n == ignored:
            continue
        flat = flatns + n
        key = pkg(path) + n + ".m"
        if key not in files:
            problems.append("no classdef file %s" % key)
        if cpp.count("Collector_%s;" % flat) != 1 or cpp.count("static Collector_%s collector_%s;" % (flat, flat)) != 1:
            problems.append("class %s: collector declared %d / %d times" % (n, cpp.count("Collector_%s;" % flat), cpp.count("static Collector_%s collector_%s;" % (flat, flat))))
        if cpp.count("collector_%s.begin()" % flat) != 1:
            problems.append("class %s: freed %d times in _deleteAllObjects" % (n, cpp.count("collector_%s.begin()" % flat)))
        rtti = cpp.count('"%s"));' % flat)
        if n != "Plain" and rtti != (1 if virt else 0):
            problems.append("class %s: %d RTTI entries, virtual=%s" % (n, rtti, bool(virt)))
        if not re.search(r"^void %s_collectorInsertAndMakeBase_\d+\(" % flat, cpp, re.M) or not re.search(r"^void %s_deconstructor_\d+\(" % flat, cpp, re.M):
            problems.append("class %s: collector-insert / destructor routine missing" % n)
    if problems:
        return _fail(text=text, problems=problems)
    return True


def c10_aliases(variant: int, virt: int, nsdepth: int, members: int, ign: int) -> bool:
    """
    One template instantiation wrapped under two MATLAB names (two typedef aliases; an instantiation list plus an alias; an
    alias of an enumerated instantiation next to a plain class): every name has its classdef, exactly one collector
    declaration, one clean-up entry, its routines, and an RTTI entry iff the class is virtual.
    With one of the names on the ignore list, that name has no artefact at all (file, collector, clean-up, RTTI, typedef,
    routines) and the others keep theirs.
    pre: 0 <= variant <= 2 and 0 <= virt <= 1 and 0 <= nsdepth <= 2 and 0 <= members <= 2 and 0 <= ign <= 1
    post: _
    """
    variant, virt, nsdepth, members, ign = pick(variant, 0, 3), pick(virt, 0, 2), pick(nsdepth, 0, 3), pick(members, 0, 3), pick(ign, 0, 2)
    with concrete():
        ok = check_aliases(variant, virt, nsdepth, members, ign)
    reached({"variant": variant, "virtual": virt, "nsdepth": nsdepth, "members": members})
    return ok


KF_FOREIGN = [
    "namespace other { template<T> class Box { Box(); T get() const; }; }\nnamespace gtsam { class Point { Point(); }; typedef other::Box<gtsam::Point> BoxP; }",
    "namespace gtsam { class Point { Point(); }; typedef lib::deep::Box<double> BoxD; }\nnamespace lib { namespace deep { template<T> class Box { Box(T a); void put(T a) const; }; } }",
]


def foreign_typedef_problems(text):
    """internal consistency of what the toolbox says about one class: the pointer property a classdef declares is the one
    its methods use; every collector the MEX routines use is declared"""
    import re
    files, cpp, _w = pipe.matlab(text)
    problems = []
    for name, body in sorted(files.items()):
        if not name.endswith(".m") or "classdef" not in body:
            continue
        declared = set(re.findall(r"^\s*(ptr_\w+) = 0", body, re.M))
        used = set(re.findall(r"\bobj\.(ptr_\w+)", body))
        if used - declared:
            problems.append("%s declares the pointer property %s and uses %s" % (name, sorted(declared), sorted(used - declared)))
    decl = set(re.findall(r"static Collector_\w+ (collector_\w+);", cpp))
    used = set(re.findall(r"\b(collector_\w+)\.(?:insert|find|erase|begin|end)", cpp))
    if used - decl:
        problems.append("MEX routines use the collectors %s, declared are %s" % (sorted(used - decl), sorted(decl)))
    return problems


def c10_kf_foreign_typedef(which: int) -> bool:
    """
    Witness replay for known finding C10-foreign-namespace-typedef (a typedef written in another namespace than its template:
    the classdef and the MEX source name the class partly after the typedef's namespace and partly after the template's).
    pre: 0 <= which <= 1
    post: _
    """
    which = pick(which, 0, 2)
    with concrete():
        problems = foreign_typedef_problems(KF_FOREIGN[which])
        ok = not problems or _fail(text=KF_FOREIGN[which], problems=problems)
    reached()
    return ok


def conds(tier):
    q = tier == "quick"
    t = (lambda x, y: x) if q else (lambda x, y: y)
    M = "harness.c10"
    bc = "%d first classes x %s second classes x %%s%s" % (NREP, "%d representative" % len(BREPS) if q else "%d" % NREP, "" if q else " x 3 ignore choices")
    return [
        xh.Cond(M, "c10_kf_foreign_typedef", 60, path_timeout=60, kind="shape-bounded", bounds="witness of a listed known finding", needs_confirm=False),
        xh.Cond(M, "c10_aliases", t(200, 600), kind="shape-bounded", examples=["variant=0, virt=1, nsdepth=1, members=1, ign=0", "variant=1, virt=0, nsdepth=2, members=0, ign=1", "variant=2, virt=1, nsdepth=0, members=2, ign=1", "variant=0, virt=1, nsdepth=2, members=1, ign=1"],
                bounds="3 alias layouts x virtual x namespace depth 0-2 x 3 member sets x one name ignored | none"),
        xh.Cond(M, "c10_serialization", t(420, 1800), kind="shape-bounded", path_timeout=90, examples=["a=2, b=0, sa=1, sb=0, boost=1, layout=0, ign=0", "a=1, b=3, sa=1, sb=1, boost=0, layout=1, ign=1"],
                bounds="%d x %d class shapes (method-less, static-only, property-only included) x serialize on either class x serialization option%s" % (len(SREPS), 4 if q else len(SREPS), " (not both off)" if q else " x 2 layouts x ignore")),
        xh.Cond(M, "c10_census_even", t(420, 3600), kind="shape-bounded", path_timeout=90, examples=["a=4, b=2, layout=1, ign=2", "a=11, b=0, layout=3, ign=0"], bounds=bc % "layouts 0,2,4,6"),
        xh.Cond(M, "c10_census_odd", t(420, 3600), kind="shape-bounded", path_timeout=90, examples=["a=4, b=2, layout=1, ign=2", "a=0, b=1, layout=2, ign=1"], bounds=bc % "layouts 1,3,5 (same-leaf namespaces, re-opened namespace)"),
        xh.Cond(M, "c10_all_classes_lo", t(420, 3600), kind="shape-bounded", path_timeout=90, examples=["code=101, layout=0"], bounds="class shapes 0-%d%s" % (NC // 2 - 1, " x 2 layouts" if not q else " (layout derived)")),
        xh.Cond(M, "c10_all_classes_hi", t(420, 3600), kind="shape-bounded", path_timeout=90, examples=["code=383, layout=1"], bounds="class shapes %d-%d%s" % (NC // 2, NC - 1, " x 2 layouts" if not q else " (layout derived)")),
    ]
