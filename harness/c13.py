"""C13 — instantiations are independent of each other and of parameter spelling."""
import copy
import itertools
import os
import re

import gtwrap.interface_parser as parser
import gtwrap.template_instantiator as ti
from gtwrap.pybind_wrapper import PybindWrapper

from harness import pipe
from harness.c02 import _rename
from harness.project import project, p_decl
from vlib.trace import reached, concrete, pick
from vlib import xh

LAST_FAILURE = None
THOROUGH = os.environ.get("VERIF_TIER", "quick") == "thorough"
LS = 3 if THOROUGH else 2


def _fail(**kw):
    global LAST_FAILURE
    LAST_FAILURE = {k: repr(v)[:1500] for k, v in kw.items()}
    return False


SRC = """
namespace ns { class A { A(); }; class B { B(); }; class C { C(); }; }
namespace gt {
template<TT = {%s}>
class Cls : gt::Base<ns::Holder<TT>, TT> {
  enum Mode { M1, M2 };
  Cls(const TT& t, const This::Mode& m = This::Mode::M1);
  This::Mode mode() const;
  gt::This::Mode qualified(const gt::This::Mode& m, std::vector<gt::This::Mode> ms) const;
  TT::Value value(std::vector<TT> vs, std::map<int, This::Mode> mm) const;
  TT::Traits::Scalar scal(const TT::Traits::Scalar& sc, std::vector<TT::Traits::Scalar> sv) const;
  pair<TT, This> both(TT* p, const This& other);
  static This Make(TT@ raw);
  template<UU = {double, ns::C}, VV = {int, ns::A}>
  void tm(const UU& u, TT t, VV w, int lim = TTL_MAX, int k = kVV, double z = xUUx + TTraits::one(), string s = "TT UU VV");
  template<UU = {size_t, ns::B}, VV = {ns::C, double}>
  static This Build(UU u, const VV& w);
  TT prop;
  This operator+(const This& o) const;
  __len__();
  __contains__(TT key);
  __iter__();
};
template<TT = {%s}>
TT fun(const TT& a, std::vector<TT::Value> v);
}
"""
IN_USE = ["qualified", "ms", "lim", "k", "z", "s", "TTL_MAX", "kVV", "xUUx", "TTraits", "one", "string", "VV", "w", "Build", "key", "Holder", "Traits", "Scalar", "scal", "sc", "sv", "Cls", "Base", "Mode", "M1", "M2", "A", "B", "C", "ns", "gt", "This", "Value", "std", "vector", "map", "int", "pair", "UU", "double",
          "t", "m", "vs", "mm", "p", "other", "raw", "u", "o", "a", "v", "mode", "value", "both", "Make", "tm", "prop", "fun", "void", "const",
          "operator", "static", "template", "class", "enum", "bool", "char", "size_t", "float", "typedef", "virtual", "namespace", "unsigned"]
INSTS = ["ns::A", "ns::B", "ns::C"]
ORDERS = [list(p) for r in (1, 2, 3) for p in itertools.permutations(range(3), r)]      # 15 ordered non-empty subsets
NORD = len(ORDERS)


def wrapped_texts(text):
    """per instantiated entity: (name -> pybind block, projection) using the REAL pipeline"""
    mod = ti.instantiate_namespace(parser.Module.parseString(text))
    w = PybindWrapper(module_name="m", top_module_namespaces=[''], ignore_classes=[''], module_template=pipe.PYBIND_TPL)
    out = {}
    for ns in mod.content:
        if isinstance(ns, parser.Namespace) and ns.name == "gt":
            for e in ns.content:
                if isinstance(e, ti.InstantiatedClass):
                    out[e.name] = (w.wrap_instantiated_class(e) + w.wrap_enums(e.enums, e), p_decl(e))
                elif isinstance(e, ti.InstantiatedGlobalFunction):
                    out[e.name] = (w.wrap_functions([e], "gt", prefix="\n    m_gt", suffix=";"), p_decl(e))
    return out, [e for e in out]


def matlab_classdefs(text):
    files, cpp, _ = pipe.matlab(text)
    return {k: v for k, v in files.items() if k.endswith(".m")}


def strip_ids(m):
    return re.sub(r"_wrapper\(\d+", "_wrapper(#", m)


def check_independence(order, use_matlab):
    lst = [INSTS[i] for i in ORDERS[order]]
    text = SRC % (", ".join(lst), ", ".join(lst))
    problems = []
    # aliasing: the template's own tree must not change when it is instantiated
    parsed = parser.Module.parseString(text)
    before = project(copy.deepcopy(parsed))
    tmpl_cls = parsed.content[1].content[0]
    tmpl_fun = parsed.content[1].content[1]
    before_cls, before_fun = p_decl(tmpl_cls), p_decl(tmpl_fun)
    ti.instantiate_namespace(parsed)
    if p_decl(tmpl_cls) != before_cls or p_decl(tmpl_fun) != before_fun:
        problems.append("instantiation modified the template declaration itself")
    full, names = wrapped_texts(text)
    want_names = ["Cls" + x.split("::")[1] for x in lst] + ["fun" + x.split("::")[1] for x in lst]
    if names != want_names:
        problems.append("instantiations %r, requested %r" % (names, want_names))
    again, _ = wrapped_texts(text)
    if again != full:
        problems.append("a second fresh parse + instantiation gives a different result")
    mfull = matlab_classdefs(text) if use_matlab else {}
    for x in lst:
        single_text = SRC % (x, x)
        single, _ = wrapped_texts(single_text)
        for nm in ("Cls" + x.split("::")[1], "fun" + x.split("::")[1]):
            if nm not in full:
                continue
            if full[nm] != single[nm]:
                diff = [(a, b) for a, b in zip(full[nm][0].split("\n"), single[nm][0].split("\n")) if a != b][:3]
                problems.append("%s differs between list %r and list [%s]: %r" % (nm, lst, x, diff or "projection differs"))
        if use_matlab:
            ms = matlab_classdefs(single_text)
            key = "+gt/Cls%s.m" % x.split("::")[1]
            if strip_ids(mfull.get(key, "")) != strip_ids(ms.get(key, "-")):
                problems.append("MATLAB classdef %s differs between list %r and the singleton list" % (key, lst))
    if problems:
        return _fail(list=lst, problems=problems)
    return True


def c13_independence(order: int) -> bool:
    """
    For every ordered non-empty subset of {ns::A, ns::B, ns::C} as the instantiation list: each instantiation's
    projection and pybind block equal those obtained from the singleton list; a second fresh run is identical; the
    template's own tree is unchanged by instantiation.
    pre: 0 <= order < NORD
    post: _
    """
    order = pick(order, 0, NORD)
    with concrete():
        ok = check_independence(order, 0)
    reached({"list": [INSTS[i] for i in ORDERS[order]]})
    return ok


def c13_independence_matlab(order: int) -> bool:
    """
    As c13_independence, also comparing the MATLAB classdef of each instantiation (ids replaced).
    pre: 0 <= order < NORD
    post: _
    """
    order = pick(order, 0, NORD)
    with concrete():
        ok = check_independence(order, 1)
    reached({"list": [INSTS[i] for i in ORDERS[order]], "matlab": 1})
    return ok


with concrete():
    _BASE_TEXT = SRC % ("ns::A, ns::B", "ns::A")
    _PARSED = parser.Module.parseString(_BASE_TEXT)
    _BASELINE = None


def _render(parsed_gt):
    w = PybindWrapper(module_name="m", top_module_namespaces=[''], ignore_classes=[''], module_template=pipe.PYBIND_TPL)
    cls, fun = parsed_gt.content[0], parsed_gt.content[1]
    out = []
    for inst in cls.template.instantiations[0]:
        ic = ti.InstantiatedClass(cls, [inst])
        out.append(ic.name)
        out.append(w.wrap_instantiated_class(ic))
    for inst in fun.template.instantiations[0]:
        f = ti.InstantiatedGlobalFunction(fun, [inst])
        out.append(f.name)
        out.append(w.wrap_functions([f], "gt", prefix="\n    m_gt", suffix=";"))
    return out


def c13_alpha_rename(s: str) -> bool:
    """
    Renaming the template parameter TT consistently to any unused identifier changes nothing in the output.
    pre: pipe.is_ident(s, 1, LS) and s not in IN_USE
    post: _
    """
    global _BASELINE
    with concrete():
        if _BASELINE is None:
            _BASELINE = _render(copy.deepcopy(_PARSED).content[1])
        mod = copy.deepcopy(_PARSED)
    gt = mod.content[1]
    _rename(gt.content[0], {"TT": s})
    _rename(gt.content[1], {"TT": s})
    got = _render(gt)
    ok = got == _BASELINE
    if not ok:
        with concrete():
            _fail(s=s, diff=[(a, b) for a, b in zip(got, _BASELINE) if a != b][:2])
    reached()
    return ok


def c13_other_templates(layout: int, order: int, where: int) -> bool:
    """
    Independence across DIFFERENT templates: the instantiation a typedef produces (projection and pybind block) is the
    same whether or not another template of the same name — in a sibling, enclosing, nested or suffix-related
    namespace — is declared and instantiated in the same run; typedefs at global scope or inside a namespace (before or
    after the templates).
    pre: 0 <= layout < 5 and 0 <= order <= 1 and 0 <= where <= 2
    post: _
    """
    from harness import c08_product as P
    layout, order, where = pick(layout, 0, len(P.SAME_LAYOUTS)), pick(order, 0, 2), pick(where, 0, 3)
    with concrete():
        problems = []

        def blocks(text):
            mod = ti.instantiate_namespace(parser.Module.parseString(text))
            w = PybindWrapper(module_name="m", top_module_namespaces=[''], ignore_classes=[''], module_template=pipe.PYBIND_TPL)
            return {c.name: (w.wrap_instantiated_class(c), p_decl(c)) for n in ("BoxA", "BoxB") for c in P.find_all(mod, n, [])}
        try:
            both = blocks(P.build_same_name(layout, order, where=where)[0])
            for alias, kw in (("BoxA", dict(with_second=False)), ("BoxB", dict(with_first=False))):
                alone = blocks(P.build_same_name(layout, order, where=where, **kw)[0])
                if both.get(alias) != alone.get(alias):
                    problems.append("%s differs when the other template of the same name is present: %r" % (
                        alias, [(a, b) for a, b in zip((both.get(alias) or ("",))[0].split("\n"), (alone.get(alias) or ("",))[0].split("\n")) if a != b][:2]))
        except Exception as ex:
            problems.append("raised %r" % ex)
        ok = not problems or _fail(text=P.build_same_name(layout, order, where=where)[0], problems=problems)
    reached({"layout": layout, "order": order, "where": where})
    return ok


FRESH_TEXTS = [
    "namespace fwd { typedef geo::Box<int> BoxI; typedef geo::make<int> makeI; }\nnamespace geo { template<T = {double}> class Box { Box(const T& w); T width() const; }; template<T> T make(T seed); }",
    "namespace fwd { typedef geo::Box<int> BoxI; typedef geo::make<int> makeI; }\nnamespace geo { template<SCALAR = {double}> class Box { Box(const SCALAR& h, const SCALAR& d); SCALAR height() const; SCALAR depth() const; }; template<U> void make(U a, U b); }",
    "namespace geo { template<T = {double}> class Box { Box(); static This Unit(); void scale(T f); }; template<T> T make(); }\nnamespace fwd { typedef geo::Box<int> BoxI; typedef geo::make<int> makeI; }",
    "template<T = {double}> class Box { Box(T only); };\nnamespace geo { class Plain { Plain(); }; }\ntypedef Box<int> BoxI;",
    "typedef Box<int> BoxI;\ntemplate<K = {double}> class Box { Box(K a, K b, K c); K third() const; };",
    "namespace geo { typedef geo::Box<int> BoxI; template<V = {double}> class Box { Box(); V vol() const; }; }",
]
_FRESH_REF = {}


def fresh_result(text):
    """projection + pybind text of every instantiated class / function of a fresh parse of `text`"""
    mod = ti.instantiate_namespace(parser.Module.parseString(text))
    w = PybindWrapper(module_name="m", top_module_namespaces=[''], ignore_classes=[''], module_template=pipe.PYBIND_TPL)
    out = []

    def visit(ns, path):
        for e in ns.content:
            if isinstance(e, parser.Namespace):
                visit(e, path + [e.name])
            elif isinstance(e, ti.InstantiatedClass):
                out.append(["::".join(path + [e.name]), e.to_cpp(), repr(p_decl(e)), w.wrap_instantiated_class(e)])
            elif isinstance(e, (ti.InstantiatedGlobalFunction, ti.InstantiatedDeclaration)):
                out.append(["::".join(path + [e.name]), e.to_cpp(), repr(p_decl(e)), ""])
    visit(mod, [])
    return out


def c13_fresh_parses(first: int, second: int, last: int) -> bool:
    """
    "How often instantiation is performed on fresh parses": instantiating a freshly parsed module after zero, one or
    two OTHER freshly parsed modules were instantiated in the same process — modules that declare templates with the
    same qualified names but other parameters and members, with the typedefs before or after the templates — gives
    exactly what a pristine interpreter gives for it.
    pre: 0 <= first <= len(FRESH_TEXTS) and 0 <= second <= len(FRESH_TEXTS) and 0 <= last < len(FRESH_TEXTS)
    post: _
    """
    NF = len(FRESH_TEXTS)
    first, last = pick(first, 0, NF + 1), pick(last, 0, NF)
    second = pick(second, 0, NF + 1) if THOROUGH else (first + 2 * last + 1) % (NF + 1)          # quick: the second earlier text is derived
    with concrete():
        import json
        import subprocess
        import sys
        from vlib.common import ROOT
        ok = True
        if last not in _FRESH_REF:
            script = ("import sys, json\nsys.path.insert(0, %r)\nfrom harness import c13\n"
                      "print(json.dumps(c13.fresh_result(c13.FRESH_TEXTS[int(sys.argv[1])])))" % ROOT)
            p = subprocess.run([sys.executable, "-c", script, str(last)], capture_output=True, text=True, env=dict(os.environ))
            if p.returncode != 0:
                ok = _fail(problem="reference interpreter failed: " + p.stderr[-400:])
            else:
                _FRESH_REF[last] = json.loads(p.stdout.strip().splitlines()[-1])
        if ok:
            earlier = [FRESH_TEXTS[i] for i in (first, second) if i < NF]
            for t in earlier:
                fresh_result(t)
            got = json.loads(json.dumps(fresh_result(FRESH_TEXTS[last])))
            if got != _FRESH_REF[last]:
                ok = _fail(earlier=earlier, text=FRESH_TEXTS[last],
                           differs=[(a[:2], b[:2]) for a, b in zip(got, _FRESH_REF[last]) if a != b][:3] or "different entities")
    reached({"first": first, "second": second, "last": last})
    return ok


def c13_same_alias(layout: int, kind: int) -> bool:
    """
    Independence across typedefs: two typedefs with the same name in namespaces whose innermost names are equal, naming
    different templates — each instantiation is what it is without the other one (harness/c08_product.c08_same_alias).
    pre: 0 <= layout < 4 and 0 <= kind <= 2
    post: _
    """
    from harness import c08_product as P
    ok = P.c08_same_alias(layout, kind)
    if not ok:
        global LAST_FAILURE
        LAST_FAILURE = P.LAST_FAILURE
    return ok


def conds(tier):
    q = tier == "quick"
    t = (lambda x, y: x) if q else (lambda x, y: y)
    M = "harness.c13"
    return [
        xh.Cond(M, "c13_independence", t(300, 900), kind="shape-bounded", path_timeout=90, examples=["order=3", "order=14"],
                bounds="all 15 ordered non-empty subsets of a 3-element instantiation list, class + function template, pybind"),
        xh.Cond(M, "c13_independence_matlab", t(480, 1200), kind="shape-bounded", path_timeout=90, examples=["order=3", "order=0"],
                bounds="all 15 ordered non-empty subsets, pybind and MATLAB classdefs"),
        xh.Cond(M, "c13_fresh_parses", t(240, 900), kind="shape-bounded", path_timeout=60, examples=["first=0, second=6, last=1", "first=2, second=0, last=1", "first=6, second=6, last=0", "first=3, second=4, last=5"],
                bounds="6 module texts sharing qualified template names: %s earlier fresh parses before each text, compared with a pristine interpreter" % ("every sequence of 0-2" if not q else "0-2 (the second derived)")),
        xh.Cond(M, "c13_same_alias", t(120, 400), kind="shape-bounded", examples=["layout=0, kind=0", "layout=1, kind=1", "layout=3, kind=2"],
                bounds="4 pairs of namespace paths with equal innermost names x class / function / foreign template; together and alone"),
        xh.Cond(M, "c13_other_templates", t(120, 600), kind="shape-bounded", examples=["layout=1, order=0, where=0", "layout=2, order=1, where=1", "layout=0, order=0, where=2"],
                bounds="5 namespace layouts of two same-named templates x 2 typedef orders x 3 places of the typedef block"),
        xh.Cond(M, "c13_alpha_rename", t(300, 1800), examples=["s='T'", "s='X9'", "s='V'", "s='ts'", "s='s'", "s='ar'", "s='e'"], bounds="all unused identifiers of length <= %d as the parameter name" % (2 if q else 3)),
    ]
