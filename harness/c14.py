"""C14 — generation is a pure, repeatable function of inputs and options (in-process history + I/O footprint)."""
import os
import xml.etree.ElementTree as ET

from gtwrap.pybind_wrapper import PybindWrapper
from gtwrap.matlab_wrapper import MatlabWrapper

from harness import pipe
from harness.c16 import patched_io, DATA, read_data, tpl
from harness.c17 import mk_member
from harness.known import kf_open
from vlib.trace import reached, concrete, pick
from vlib import xh
from vlib.common import REPO

LAST_FAILURE = None
THOROUGH = os.environ.get("VERIF_TIER", "quick") == "thorough"

TEXTS = [
    "namespace gt { class Pose { Pose(); void serialize() const; }; }",
    "namespace gt { class Pose { Pose(); void serialize() const; }; class Rot { Rot(); void serializable() const; }; }",
    "namespace gt { template<A = {int}, B = {double}> class Pair { Pair(); void serialize() const; }; class Plain { Plain(); }; }",
    "class Glob { Glob(); void serialize() const; void f(int a = 1) const; }; double g(double x);",
    "namespace other { class Pose { Pose(); void serialize() const; }; enum E { X }; }",
    "namespace camera { class Params { Params(); enum Kind { A, B }; camera::Params::Kind kind() const; }; }",
    "namespace solver { class Params { Params(); enum Mode { X }; }; class PARAMS { PARAMS(); enum Mode { Y }; }; }",
    # a serializable two-argument instantiation whose C++ name, with `,:<> ` removed, equals that of gt::Pair<int, double> above
    "class i { i(); }; class ntdouble { ntdouble(); };\nnamespace gt { template<A = {i}, B = {ntdouble}> class Pair { Pair(); void serialize() const; }; }",
]
NT = len(TEXTS)


def _fail(**kw):
    global LAST_FAILURE
    LAST_FAILURE = {k: repr(v)[:1200] for k, v in kw.items()}
    return False


def mkw(boost, xml=""):
    return PybindWrapper(module_name="mod", top_module_namespaces=[''], use_boost_serialization=bool(boost),
                         ignore_classes=[''], module_template=pipe.PYBIND_TPL + "\n//EXPORTS\n{boost_class_export}", xml_source=xml)


def c14_history(a: int, b: int, c: int, boost: int, depth: int) -> bool:
    """
    wrap_file(B) on a wrapper that already wrapped `depth` earlier files equals wrap_file(B) on a fresh wrapper
    (one induction step from every state reachable by 0-2 earlier calls over the text pool, A == B included).
    pre: 0 <= a < NT and 0 <= b < NT and 0 <= c < NT and 0 <= boost <= 1 and 0 <= depth <= 2
    post: _
    """
    depth, b, boost = pick(depth, 0, 3), pick(b, 0, NT), pick(boost, 0, 2)
    a = pick(a, 0, NT) if depth >= 1 else 0          # indices of earlier calls are only enumerated when those calls happen
    c = (pick(c, 0, NT) if THOROUGH else (a + 2 * b + 1) % NT) if depth >= 2 else 0          # quick: the first of two earlier texts is derived
    with concrete():
        w = mkw(boost)
        if depth >= 2:
            w.wrap_file(TEXTS[c], module_name="mod")
        if depth >= 1:
            w.wrap_file(TEXTS[a], module_name="mod")
        got = w.wrap_file(TEXTS[b], module_name="mod")
        want = mkw(boost).wrap_file(TEXTS[b], module_name="mod")
        ok = got == want
        if not ok:
            _fail(earlier=[TEXTS[c], TEXTS[a]][2 - depth:], text=TEXTS[b], boost=boost,
                  diff=[(x, y) for x, y in zip(got.split("\n"), want.split("\n")) if x != y][:4], got_tail=got[-300:], want_tail=want[-300:])
    reached({"depth": depth, "a": a, "b": b, "boost": boost} if (not ok or (a == b and depth == 1 and boost)) else None)
    return ok


def c14_xml_memory(times: int, nover: int, extra: int) -> bool:
    """
    With Doxygen XML supplied, wrapping the same text again on the same wrapper gives the same output
    (overloads indistinguishable by parameter names are served in document order in every run) — also when the XML
    documents more such overloads than the interface wraps.
    pre: 1 <= times <= 3 and 1 <= nover <= 3 and 0 <= extra <= 2
    pre: not (kf_open('C14-xml-memory') and nover + extra >= 2)
    post: _
    """
    times, nover, extra = pick(times, 1, 4), pick(nover, 1, 4), pick(extra, 0, 3)
    with concrete():
        text = "class A { " + " ".join("void f(%s key) const;" % t for t in ["int", "double", "string"][:nover]) + " };"
        w = mkw(0, xml="xmlsrc")
        elems = [mk_member("f", [("key", False)], "doc%d" % i) for i in range(nover + extra)]
        w.xml_parser.get_member_defs = lambda *a, **k: elems
        outs = []
        ok = True
        try:
            for _ in range(times):
                outs.append(w.wrap_file(text, module_name="mod"))
        except Exception as ex:
            ok = _fail(text=text, run=len(outs) + 1, exception=repr(ex))
        if ok and any(o != outs[0] for o in outs):
            ok = _fail(text=text, first=outs[0][-400:], later=[o[-400:] for o in outs[1:]])
    reached({"times": times, "overloads": nover, "documented": nover + extra})
    return ok


def c14_footprint(which: int, boost: int, nfiles: int) -> bool:
    """
    Files written = exactly the requested outputs; files read = the given sources (+ the bundled MATLAB template, + the requested output paths themselves);
    nothing else of the process environment is consulted through the file system.
    pre: 0 <= which <= 2 and 0 <= boost <= 1 and 1 <= nfiles <= 3
    post: _
    """
    which, boost, nfiles = pick(which, 0, 3), pick(boost, 0, 2), pick(nfiles, 1, 4)
    with concrete():
        srcs = [os.path.join(DATA, n) for n in ("main.i", "part_a.i", "part_b.i")][:nfiles]
        problems = []
        with patched_io() as rec:
            if which == 0:
                w = PybindWrapper(module_name="mod", top_module_namespaces=[''], use_boost_serialization=bool(boost), ignore_classes=[''], module_template=tpl())
                w.wrap(list(srcs), "some/dir/out.cpp")
                want_w, want_r = ["some/dir/out.cpp"], [srcs[0]]
            elif which == 1:
                w = PybindWrapper(module_name="mod", top_module_namespaces=[''], use_boost_serialization=bool(boost), ignore_classes=[''], module_template=tpl())
                w.wrap_submodule(srcs[nfiles - 1])
                want_w, want_r = [os.path.basename(srcs[nfiles - 1]).replace(".i", ".cpp")], [srcs[nfiles - 1]]
            else:
                w = MatlabWrapper(module_name="mod", top_module_namespace=[''], ignore_classes=[''], use_boost_serialization=bool(boost))
                content = w.wrap(list(srcs), path="tb")
                files = {}
                pipe.flatten_content(content, "tb", files)
                want_w = sorted(files)
                want_r = None
            written, read = list(rec.written), list(rec.read)
        if which == 2:
            if sorted(written) != want_w:
                problems.append("MATLAB wrote %r, content tree says %r" % (sorted(written), want_w))
            tplpath = os.path.join(REPO, "gtwrap", "matlab_wrapper", "matlab_wrapper.tpl")
            extra = [r for r in read if r not in srcs and r not in written and os.path.realpath(r) != os.path.realpath(tplpath)]
            if extra or [r for r in read if r in srcs] != srcs:
                problems.append("MATLAB read %r" % read)
            if any(not p.startswith("tb") for p in written) or any(not d.startswith("tb") for d in rec.dirs):
                problems.append("MATLAB touched paths outside the output folder: %r %r" % (written, rec.dirs))
        else:
            if written != want_w:
                problems.append("wrote %r, requested %r" % (written, want_w))
            # reading back a requested output path (e.g. to skip an identical rewrite) consults nothing foreign: what
            # such a read may do to the result is judged by c14_existing_output, not here
            if [r for r in read if r not in want_w] != want_r:
                problems.append("read %r, given %r" % (read, want_r))
        ok = not problems or _fail(which=which, problems=problems)
    reached({"which": which, "nfiles": nfiles})
    return ok


import itertools
PERMS = list(itertools.permutations(["part_a", "multi", "part_b"]))


def c14_source_order(perm: int, boost: int) -> bool:
    """
    The main output lists the additional files in the order given, for every permutation of three files (an
    ordering taken from a hash-based container cannot agree with all six).
    pre: 0 <= perm < 6 and 0 <= boost <= 1
    post: _
    """
    perm, boost = pick(perm, 0, 6), pick(boost, 0, 2)
    with concrete():
        import re
        names = list(PERMS[perm])
        srcs = [os.path.join(DATA, "main.i")] + [os.path.join(DATA, n + ".i") for n in names]
        with patched_io() as rec:
            w = PybindWrapper(module_name="mod", top_module_namespaces=[''], use_boost_serialization=bool(boost), ignore_classes=[''], module_template=tpl())
            w.wrap(list(srcs), "out.cpp")
            out = rec.written.get("out.cpp", "")
        decls = re.findall(r"^void (\w+)\(py::module_ &\);$", out, re.M)
        inits = re.findall(r"^(\w+)\(m_\);$", out, re.M)
        ok = (decls == names and inits == names) or _fail(sources=names, declared=decls, invoked=inits)
    reached({"order": PERMS[perm]})
    return ok


class MemFS:
    """in-memory file system that persists across runs inside one harness execution (a "build directory")"""

    def __init__(self):
        self.files, self.dirs = {}, set()
        fs = self

        class P:
            join = staticmethod(os.path.join)
            dirname = staticmethod(os.path.dirname)
            basename = staticmethod(os.path.basename)
            realpath = staticmethod(os.path.realpath)
            abspath = staticmethod(os.path.abspath)
            normpath = staticmethod(os.path.normpath)
            splitext = staticmethod(os.path.splitext)

            @staticmethod
            def isdir(p):
                return p in fs.dirs or any(f.startswith(p.rstrip("/") + "/") for f in fs.files) or (not p.startswith("tb") and os.path.isdir(p))

            @staticmethod
            def exists(p):
                return p in fs.files or P.isdir(p) or (not p.startswith("tb") and os.path.exists(p))

            @staticmethod
            def isfile(p):
                return p in fs.files or (not p.startswith("tb") and os.path.isfile(p))

            @staticmethod
            def getsize(p):
                return len(fs.files[p]) if p in fs.files else os.path.getsize(p)
        self.path = P

    def makedirs(self, p, exist_ok=False):
        self.dirs.add(p)

    def mkdir(self, p):
        self.dirs.add(p)

    def open(self, name, mode="r", *a, **k):
        import io
        name = str(name)
        fs = self
        if "w" in mode:
            class W(io.StringIO):
                def __exit__(s2, *aa):
                    fs.files[name] = s2.getvalue()
                    return False
            return W()
        if name in self.files:
            return io.StringIO(self.files[name])
        if name.endswith("matlab_wrapper.tpl") and not os.path.exists(name):
            return io.StringIO(pipe.MATLAB_TPL_TEXT)
        return open(name, mode, *a, **k)


REVISIONS = [
    ("namespace robot { class Arm { Arm(); double value(int a) const; int reach; }; enum Paint { Red, Blu }; double grip(double f); }",
     "namespace robot { class Arm { Arm(); double scale(int a) const; int range; }; enum Paint { Tan, Sky }; double grab(double f); }"),
    ("class Solo { Solo(size_t n); void run() const; };", "class Solo { Solo(double n); void jog() const; };"),
    ("namespace a { class K { K(); }; } namespace b { class K { K(); void extra() const; }; }", "namespace a { class K { K(); void added() const; }; } namespace b { class K { K(); }; }"),
]


def run_matlab_into(fs, text):
    import gtwrap.matlab_wrapper.wrapper as _mw
    saved = (_mw.__dict__.get("open"), _mw.os, _mw.osp)
    _mw.open, _mw.os, _mw.osp = fs.open, fs, fs.path
    try:
        w = MatlabWrapper(module_name="mod", top_module_namespace=[''], ignore_classes=[''])
        w.wrap_namespace
        import gtwrap.interface_parser as parser
        import gtwrap.template_instantiator as instantiator
        module = instantiator.instantiate_namespace(parser.Module.parseString(text))
        w.wrap_namespace(module)
        w.generate_wrapper(module)
        w.generate_content(w.content, "tb")
    finally:
        if saved[0] is None:
            _mw.__dict__.pop("open", None)
        else:
            _mw.open = saved[0]
        _mw.os, _mw.osp = saved[1], saved[2]


def c14_previous_run(r: int, swap: int) -> bool:
    """
    Generating revision 2 into a directory that still holds the output of revision 1 (same-length edits included)
    leaves exactly what generating revision 2 into an empty directory leaves, for every file revision 2 produces.
    pre: 0 <= r < len(REVISIONS) and 0 <= swap <= 1
    post: _
    """
    r, swap = pick(r, 0, len(REVISIONS)), pick(swap, 0, 2)
    with concrete():
        first, second = REVISIONS[r] if not swap else REVISIONS[r][::-1]
        used = MemFS()
        run_matlab_into(used, first)
        run_matlab_into(used, second)
        fresh = MemFS()
        run_matlab_into(fresh, second)
        stale = [k for k in fresh.files if used.files.get(k) != fresh.files[k]]
        ok = not stale or _fail(first=first, second=second, stale_files=stale)
    reached({"revisions": r, "swap": swap})
    return ok


VARIANTS = ["absent", "same", "crlf", "cr", "garbage", "truncated", "extended", "blank-padded"]


def _variant(data, v):
    if v == 2:
        return data.replace(b"\n", b"\r\n")
    if v == 3:
        return data.replace(b"\n", b"\r")
    if v == 4:
        return b"// stale\n" * 7
    if v == 5:
        return data[:len(data) // 2]
    if v == 6:
        return data + b"// trailing\n"
    if v == 7:
        return data.replace(b"\n", b" \n")
    return data


def _run_entry(entry, boost, root):
    """run one entry point writing below `root` (a real directory); returns {relative path: bytes}"""
    import shutil
    srcs = [os.path.join(DATA, n) for n in ("main.i", "part_a.i")]
    cwd = os.getcwd()
    try:
        if entry == 0:
            w = PybindWrapper(module_name="mod", top_module_namespaces=[''], use_boost_serialization=bool(boost), ignore_classes=[''], module_template=tpl())
            w.wrap(list(srcs), os.path.join(root, "out.cpp"))
        elif entry == 1:
            os.chdir(root)
            w = PybindWrapper(module_name="mod", top_module_namespaces=[''], use_boost_serialization=bool(boost), ignore_classes=[''], module_template=tpl())
            w.wrap_submodule(srcs[1])
        else:
            os.chdir(root)
            import builtins
            import gtwrap.matlab_wrapper.wrapper as _mw
            had, old = "open" in _mw.__dict__, _mw.__dict__.get("open")
            _mw.open = pipe._TplOpen(builtins.open)          # real files; only the git-ignored template is supplied when absent
            try:
                w = MatlabWrapper(module_name="mod", top_module_namespace=[''], ignore_classes=[''], use_boost_serialization=bool(boost))
                w.wrap([srcs[0]], path="tb")
            finally:
                if had:
                    _mw.open = old
                else:
                    del _mw.open
    finally:
        os.chdir(cwd)
    out = {}
    for d, _dirs, fs in os.walk(root):
        for f in fs:
            full = os.path.join(d, f)
            with open(full, "rb") as fh:
                out[os.path.relpath(full, root)] = fh.read()
    return out


def c14_existing_output(entry: int, v: int, boost: int) -> bool:
    """
    The bytes left at every output path do not depend on what the path held before the run: absent, the same
    output, the same output with CRLF / lone-CR line ends, blank-padded lines, unrelated text, a truncated or an extended copy.
    (real temporary directory, removed afterwards)
    pre: 0 <= entry <= 2 and 0 <= v < len(VARIANTS) and 0 <= boost <= 1
    post: _
    """
    entry, v, boost = pick(entry, 0, 3), pick(v, 0, len(VARIANTS)), pick(boost, 0, 2)
    with concrete():
        import shutil
        import tempfile
        a, b = tempfile.mkdtemp(prefix="c14_"), tempfile.mkdtemp(prefix="c14_")
        try:
            fresh = _run_entry(entry, boost, a)
            if v:
                for rel, data in fresh.items():
                    os.makedirs(os.path.dirname(os.path.join(b, rel)), exist_ok=True)
                    with open(os.path.join(b, rel), "wb") as fh:
                        fh.write(_variant(data, v))
            again = _run_entry(entry, boost, b)
        finally:
            shutil.rmtree(a, ignore_errors=True)
            shutil.rmtree(b, ignore_errors=True)
        bad = [k for k in fresh if again.get(k) != fresh[k]] + [k for k in again if k not in fresh]
        ok = (bool(fresh) and not bad) or _fail(entry=entry, previous_content=VARIANTS[v], files=bad[:4], fresh_files=sorted(fresh)[:4])
    reached({"entry": entry, "previous": VARIANTS[v]})
    return ok


SEED_TEXTS = TEXTS + [
    "namespace gt { template<K = {int, string}, V = {double, gt::Plain}> class Pair { Pair(); void serialize() const; }; class Plain { Plain(); void serialize() const; }; "
    "typedef gt::Pair<bool, bool> PairBB; enum E { A, B }; double f(double x); double g(gt::E e); }",
    "namespace a { class K { K(); void serializable() const; }; } namespace b { class K { K(); void serialize() const; }; template<T = {a::K, b::K, double}> class W { W(); }; }",
]
_SEED_SCRIPT = """
import sys, hashlib, json
sys.path.insert(0, %r)
from harness import pipe
texts = json.loads(sys.argv[1])
out = []
for t in texts:
    out.append(hashlib.sha256(pipe.pybind(t, boost=bool(int(sys.argv[2]))).encode()).hexdigest())
    files, cpp, _w = pipe.matlab(t, boost=bool(int(sys.argv[2])))
    out.append(hashlib.sha256(json.dumps(sorted(files.items())).encode()).hexdigest())
    out.append(hashlib.sha256(json.dumps(list(files)).encode()).hexdigest())        # order of emission as well
print(json.dumps(out))
"""


def c14_hash_seed(seed: int, boost: int) -> bool:
    """
    The same texts generated in FRESH interpreters under different PYTHONHASHSEED values (and a different working
    directory) give byte-identical pybind and MATLAB output, in the same emission order: nothing iterates over a
    hash-ordered container of strings or depends on object identity.
    pre: 1 <= seed <= 4 and 0 <= boost <= 1
    post: _
    """
    seed, boost = pick(seed, 1, 5), pick(boost, 0, 2)
    with concrete():
        import json
        import subprocess
        import sys
        import tempfile
        from vlib.common import ROOT
        env = dict(os.environ)
        outs = []
        for sd, cwd in ((0, ROOT), (seed * 7919, tempfile.gettempdir())):
            env["PYTHONHASHSEED"] = str(sd)
            p = subprocess.run([sys.executable, "-c", _SEED_SCRIPT % ROOT, json.dumps(SEED_TEXTS), str(boost)], capture_output=True, text=True, env=env, cwd=cwd)
            if p.returncode != 0:
                outs.append("subprocess failed: " + p.stderr[-300:])
            else:
                outs.append(json.loads(p.stdout.strip().splitlines()[-1]))
        ok = True
        if any(isinstance(o, str) for o in outs):
            ok = _fail(problem=[o for o in outs if isinstance(o, str)][0])
        elif outs[0] != outs[1]:
            diff = [(i // 3, ("pybind", "matlab files", "matlab emission order")[i % 3]) for i, (x, y) in enumerate(zip(outs[0], outs[1])) if x != y]
            ok = _fail(seeds=(0, seed * 7919), differing=[(SEED_TEXTS[i][:80], what) for i, what in diff])
    reached({"seed": seed * 7919, "boost": boost})
    return ok


ISO_FIRST = [
    ("namespace gtsam { class Key { Key(); }; class Graph { Graph(); void add(const gtsam::Key& k) const; }; }", ["gtsam::Key"]),
    ("namespace gtsam { template<T = {double}> class Box { Box(); void serialize() const; }; class Key { Key(); }; }", ["gtsam::Box<double>", "gtsam::BoxDouble"]),
    ("class Key { Key(); }; class Other { Other(); void f(Key k) const; }; double g(const Key& k);", ["Key"]),
    ("namespace gtsam { virtual class Key { Key(); }; virtual class Sub : gtsam::Key { Sub(); }; }", ["gtsam::Sub"]),
]
ISO_SECOND = [
    "namespace store { class Key { Key(); }; class Table { Table(); void put(const store::Key& k, double w) const; static store::Key Make(store::Key k); }; double h(store::Key k); }",
    "namespace gtsam { class Key { Key(); }; class Graph { Graph(); void add(const gtsam::Key& k) const; }; class Sub { Sub(gtsam::Key k); }; }",
    "class Box { Box(); }; class BoxDouble { BoxDouble(); }; class User { User(); void u(Box b, BoxDouble d) const; };",
]


def _both(text, boost, ignore=("",)):
    files, cpp, _w = pipe.matlab(text, boost=bool(boost), ignore=list(ignore))
    return pipe.pybind(text, boost=bool(boost), ignore=list(ignore)), sorted(files.items())


def c14_wrapper_isolation(first: int, second: int, boost: int) -> bool:
    """
    What a FRESH wrapper generates for a text does not depend on what other wrapper objects did earlier in the same
    process — in particular on an earlier wrapper that ignored a class with the same unqualified name (no state shared
    through class-level attributes or module globals).
    pre: 0 <= first < len(ISO_FIRST) and 0 <= second < len(ISO_SECOND) and 0 <= boost <= 1
    post: _
    """
    first, second, boost = pick(first, 0, len(ISO_FIRST)), pick(second, 0, len(ISO_SECOND)), pick(boost, 0, 2)
    with concrete():
        import json
        import subprocess
        import sys
        from vlib.common import ROOT
        text1, ignore1 = ISO_FIRST[first]
        text2 = ISO_SECOND[second]
        # reference: a pristine interpreter that never saw the first text
        script = ("import sys, json\nsys.path.insert(0, %r)\nfrom harness import c14\n"
                  "print(json.dumps(c14._both(json.loads(sys.argv[1]), int(sys.argv[2]))))" % ROOT)
        p = subprocess.run([sys.executable, "-c", script, json.dumps(text2), str(boost)], capture_output=True, text=True, env=dict(os.environ))
        ok = True
        if p.returncode != 0:
            ok = _fail(problem="reference interpreter failed: " + p.stderr[-300:])
        else:
            ref = json.loads(p.stdout.strip().splitlines()[-1])
            _both(text1, boost, ignore1)
            _both(text1, boost, ignore1)
            got = json.loads(json.dumps(_both(text2, boost)))
            if got != ref:
                which = "pybind" if got[0] != ref[0] else [a[0] for a, b in zip(got[1], ref[1]) if a != b][:3]
                ok = _fail(earlier_text=text1, earlier_ignore=ignore1, text=text2, differs_in=which)
    reached({"first": first, "second": second, "boost": boost})
    return ok


ENTRY_KINDS = ["wrap(main + parts)", "wrap_submodule(part_a)", "wrap_submodule(multi)", "wrap_file(text) without a module name", "wrap(main only)"]


def _entry(w, kind):
    """run one pybind entry point on wrapper w through the recorder; returns what it produced"""
    srcs = [os.path.join(DATA, n) for n in ("main.i", "part_a.i", "multi.i")]
    with patched_io() as rec:
        if kind == 0:
            w.wrap(list(srcs), "out/main.cpp")
        elif kind == 1:
            w.wrap_submodule(srcs[1])
        elif kind == 2:
            w.wrap_submodule(srcs[2])
        elif kind == 3:
            return {"returned": w.wrap_file(read_data("main.i"))}
        else:
            w.wrap([srcs[0]], "out/main.cpp")
        return dict(rec.written)


def c14_entry_sequence(first: int, second: int, boost: int) -> bool:
    """
    One wrapper object used through two entry points in a row (wrap, wrap_submodule, wrap_file — as a build script that
    re-uses its wrapper does): what the SECOND call produces equals what a fresh wrapper produces for it.
    pre: 0 <= first < len(ENTRY_KINDS) and 0 <= second < len(ENTRY_KINDS) and 0 <= boost <= 1
    post: _
    """
    first, second, boost = pick(first, 0, len(ENTRY_KINDS)), pick(second, 0, len(ENTRY_KINDS)), pick(boost, 0, 2)
    with concrete():
        def mk():
            return PybindWrapper(module_name="mymod", top_module_namespaces=[''], use_boost_serialization=bool(boost), ignore_classes=[''], module_template=tpl())
        w = mk()
        try:
            _entry(w, first)
            got = _entry(w, second)
            want = _entry(mk(), second)
            ok = got == want or _fail(first=ENTRY_KINDS[first], second=ENTRY_KINDS[second], boost=boost,
                                      diff=[(a, b) for k in want for a, b in zip(str(got.get(k, "")).split("\n"), str(want[k]).split("\n")) if a != b][:4])
        except Exception as ex:
            ok = _fail(first=ENTRY_KINDS[first], second=ENTRY_KINDS[second], exception=repr(ex))
    reached({"first": ENTRY_KINDS[first], "second": ENTRY_KINDS[second], "boost": boost})
    return ok


def _write_xml(folder, version):
    """a minimal Doxygen XML folder documenting gt::Pose::run(key); version None -> no folder content at all"""
    import shutil
    from harness.c17 import mk_member, _compound_file
    shutil.rmtree(folder, ignore_errors=True)
    os.makedirs(folder)
    if version is None:
        return
    idx = ET.Element("doxygenindex")
    c = ET.SubElement(idx, "compound", {"refid": "classgt_1_1Pose", "kind": "class"})
    ET.SubElement(c, "name").text = "gt::Pose"
    with open(os.path.join(folder, "index.xml"), "w") as f:
        f.write(ET.tostring(idx, encoding="unicode"))
    with open(os.path.join(folder, "classgt_1_1Pose.xml"), "w") as f:
        f.write(_compound_file("gt::Pose", "classgt_1_1Pose", "class", [mk_member("run", [("key", False)], "documentation %s of run" % version)]))


XML_STEPS = [(None, "v1"), ("v1", "v2"), ("v1", None), ("v1", "v1"), ("v2", "v1")]


def c14_xml_refresh(step: int, chdir: int, entry: int) -> bool:
    """
    One wrapper with Doxygen XML, used twice while the XML on disk changes in between (created, regenerated, removed,
    unchanged), with the XML folder given as an absolute path or as a relative path and the working directory changed to
    a second build tree: the second output carries the documentation that is on disk NOW, exactly as a fresh wrapper's does.
    (real temporary directories)
    pre: 0 <= step < len(XML_STEPS) and 0 <= chdir <= 1 and 0 <= entry <= 1
    post: _
    """
    step, chdir, entry = pick(step, 0, len(XML_STEPS)), pick(chdir, 0, 2), pick(entry, 0, 2)
    with concrete():
        import shutil
        import tempfile
        text = "namespace gt { class Pose { Pose(); double run(int key) const; }; }"
        before, after = XML_STEPS[step]
        root = tempfile.mkdtemp(prefix="c14x_")
        cwd = os.getcwd()
        try:
            a, b = os.path.join(root, "buildA"), os.path.join(root, "buildB")
            os.makedirs(a); os.makedirs(b)
            _write_xml(os.path.join(a, "xml"), before)
            xml = os.path.join(a, "xml") if not chdir else "xml"
            os.chdir(a)

            def mk():
                return PybindWrapper(module_name="mod", top_module_namespaces=[''], ignore_classes=[''], module_template=pipe.PYBIND_TPL, xml_source=xml)

            def produce(w):
                return w.wrap_file(text, module_name="mod") if entry == 0 else pipe.pybind(text, wrapper=w)
            w = mk()
            produce(w)
            if chdir:
                _write_xml(os.path.join(b, "xml"), after)
                os.chdir(b)
            else:
                _write_xml(os.path.join(a, "xml"), after)
            got = produce(w)
            want = produce(mk())
            ok = got == want or _fail(xml_before=before, xml_after=after, relative_path_and_chdir=bool(chdir),
                                      diff=[(x, y) for x, y in zip(got.split("\n"), want.split("\n")) if x != y][:3])
            if ok and after is not None and ("documentation %s of run" % after) not in got:
                ok = _fail(xml_after=after, problem="the documentation on disk is not in the output", tail=got[-300:])
        finally:
            os.chdir(cwd)
            shutil.rmtree(root, ignore_errors=True)
    reached({"xml": XML_STEPS[step], "chdir": chdir})
    return ok


def c14_repeat_fresh(t: int, boost: int) -> bool:
    """
    Two fresh wrappers of each kind on the same text give identical results (no module-level state).
    pre: 0 <= t < NT and 0 <= boost <= 1
    post: _
    """
    t, boost = pick(t, 0, NT), pick(boost, 0, 2)
    with concrete():
        a = mkw(boost).wrap_file(TEXTS[t], module_name="mod")
        f1, c1, _ = pipe.matlab(TEXTS[t], boost=bool(boost))
        b = mkw(boost).wrap_file(TEXTS[t], module_name="mod")
        f2, c2, _ = pipe.matlab(TEXTS[t], boost=bool(boost))
        ok = (a == b and f1 == f2 and c1 == c2) or _fail(text=TEXTS[t])
    reached()
    return ok


def conds(tier):
    q = tier == "quick"
    t = (lambda x, y: x) if q else (lambda x, y: y)
    M = "harness.c14"
    sb = "shape-bounded"
    return [
        xh.Cond(M, "c14_history", t(300, 1500), kind=sb, examples=["a=0, b=0, c=0, boost=1, depth=1", "a=1, b=0, c=4, boost=1, depth=2"],
                bounds="%d-text pool, 0-2 earlier wrap_file calls%s, both serialization settings" % (NT, "" if not q else " (with two, the first is derived)")),
        xh.Cond(M, "c14_xml_memory", t(120, 600), kind=sb, examples=["times=2, nover=1, extra=0", "times=2, nover=2, extra=0", "times=3, nover=1, extra=1", "times=2, nover=2, extra=1"], bounds="1-3 repeated runs x 1-3 wrapped overloads with identical parameter names x 0-2 further documented ones"),
        xh.Cond(M, "c14_footprint", t(200, 900), kind=sb, examples=["which=0, boost=1, nfiles=3", "which=2, boost=0, nfiles=2"], bounds="3 entry points x serialization x 1-3 source files"),
        xh.Cond(M, "c14_source_order", t(120, 600), kind=sb, examples=["perm=0, boost=0", "perm=5, boost=1"], bounds="6 permutations of 3 additional files x serialization"),
        xh.Cond(M, "c14_previous_run", t(120, 600), kind=sb, examples=["r=0, swap=0", "r=2, swap=1"], bounds="%d revision pairs (same-length edits) x both orders, MATLAB output directory kept between the two runs" % len(REVISIONS)),
        xh.Cond(M, "c14_existing_output", t(200, 600), kind=sb, examples=["entry=0, v=2, boost=0", "entry=1, v=3, boost=1", "entry=2, v=2, boost=0", "entry=0, v=0, boost=1"],
                bounds="3 entry points x %d previous contents of every output path x serialization (real temporary directory)" % len(VARIANTS)),
        xh.Cond(M, "c14_hash_seed", t(200, 600), kind=sb, examples=["seed=1, boost=1", "seed=3, boost=0"],
                bounds="%d texts x 4 further hash seeds x serialization, fresh interpreters, another working directory" % len(SEED_TEXTS)),
        xh.Cond(M, "c14_wrapper_isolation", t(200, 600), kind=sb, examples=["first=0, second=0, boost=0", "first=1, second=2, boost=1", "first=3, second=1, boost=0"],
                bounds="%d earlier (text, ignore list) x %d later texts x serialization, compared with a pristine interpreter" % (len(ISO_FIRST), len(ISO_SECOND))),
        xh.Cond(M, "c14_entry_sequence", t(200, 600), kind=sb, examples=["first=1, second=0, boost=0", "first=2, second=3, boost=1", "first=0, second=1, boost=0", "first=3, second=4, boost=1"],
                bounds="%d x %d ordered pairs of pybind entry points on one wrapper x serialization" % (len(ENTRY_KINDS), len(ENTRY_KINDS))),
        xh.Cond(M, "c14_xml_refresh", t(200, 600), kind=sb, examples=["step=0, chdir=0, entry=0", "step=1, chdir=1, entry=0", "step=2, chdir=0, entry=1", "step=4, chdir=1, entry=1"],
                bounds="%d changes of the XML on disk between two calls x absolute | relative path with a changed working directory x 2 entry points" % len(XML_STEPS)),
        xh.Cond(M, "c14_repeat_fresh", t(120, 600), kind=sb, examples=["t=2, boost=1"], bounds="%d texts x serialization" % NT),
    ]
