"""C15 — ignoring or removing a class affects that class only."""
import os
import re

import gtwrap.interface_parser as parser
import gtwrap.template_instantiator as ti
from gtwrap.pybind_wrapper import PybindWrapper

from harness import pipe, readers
from harness.known import kf_open
from vlib.trace import reached, concrete, pick
from vlib import xh

LAST_FAILURE = None
THOROUGH = os.environ.get("VERIF_TIER", "quick") == "thorough"
LE = 7 if THOROUGH else 6


def _fail(**kw):
    global LAST_FAILURE
    LAST_FAILURE = {k: repr(v)[:1500] for k, v in kw.items()}
    return False


TEXT2 = "virtual class G { G(); void run() const; }; namespace ns { virtual class A { A(); int val; }; virtual class AB { AB(); }; }"
with concrete():
    _INST = ti.instantiate_namespace(parser.Module.parseString(TEXT2))


def c15_entry_pybind(entry: str) -> bool:
    """
    Pybind: a class's binding is absent iff the ignore entry equals its qualified name (`G` for the global
    class, `ns::A` for the namespaced one) — never for a prefix, suffix or the other class.
    pre: len(entry) <= LE and all(c in "ns:AGB" for c in entry)
    post: _
    """
    w = PybindWrapper(module_name="m", top_module_namespaces=[''], ignore_classes=[entry], module_template=pipe.PYBIND_TPL)
    g = w.wrap_instantiated_class(_INST.content[0])
    a = w.wrap_instantiated_class(_INST.content[1].content[0])
    ab = w.wrap_instantiated_class(_INST.content[1].content[1])
    ok = ((g == "") == (entry == "G")) and ((a == "") == (entry == "ns::A")) and ((ab == "") == (entry == "ns::AB"))
    ok = ok and (g == "" or g.startswith('\n    py::class_<G, ')) and (a == "" or a.startswith('\n    py::class_<ns::A, '))
    if not ok:
        with concrete():
            _fail(entry=entry, g=g[:60], a=a[:60], ab=ab[:60])
    reached()
    return ok


def matlab_artefacts(files, cpp, ns, name):
    key = ("+%s/" % ns if ns else "") + name + ".m"
    flat = ns + name
    return {
        "classdef": key in files,
        "collector_typedef": ("Collector_%s;" % flat) in cpp,
        "delete_all": ("collector_%s.begin()" % flat) in cpp,
        "routines": bool(re.search(r"^void %s_\w+_\d+\(" % flat, cpp, re.M)),
        "rtti": ('"%s"));' % flat) in cpp,
    }


ENTRIES = ["", "G", "::G", "ns::A", "A", "ns::AB", "ns::", "s::A", "ns::A ", "ns", "ns::G", "AB", "G::", ":G"]


def check_entry_matlab(e):
    entry = ENTRIES[e]
    try:
        files, cpp, _ = pipe.matlab(TEXT2, ignore=[entry])
    except Exception as ex:
        return _fail(entry=entry, exception=repr(ex))
    problems = []
    for ns, name, qual in (("", "G", "G"), ("ns", "A", "ns::A"), ("ns", "AB", "ns::AB")):
        art = matlab_artefacts(files, cpp, ns, name)
        want = entry != qual
        if any(v != want for v in art.values()):
            problems.append("ignore entry %r: artefacts of %s are %r (all should be %s)" % (entry, qual, art, "present" if want else "absent"))
    if problems:
        return _fail(entry=entry, problems=problems)
    return True


def c15_entry_matlab(e: int) -> bool:
    """
    MATLAB: classdef file, collector typedef, delete-all entry and routines of a class are all absent iff the
    ignore entry equals its qualified name, and all present otherwise (same decision at every site).
    pre: 0 <= e < len(ENTRIES)
    pre: not (kf_open('C15-matlab-global') and ENTRIES[e] in ('G', '::G'))
    post: _
    """
    e = pick(e, 0, len(ENTRIES))
    with concrete():
        ok = check_entry_matlab(e)
    reached({"entry": ENTRIES[e]})
    return ok


# ---------------------------------------------------------------- locality: ignore == delete, others unchanged
CLASSES = [
    ("", "class G { G(); void run(int a = 1) const; static G Make(); };"),
    ("ns", "class A { A(); int val; enum Kind { K1, K2 }; Kind kind() const; };"),
    ("ns", "virtual class B { B(double x); void serialize() const; };"),
    ("ns", "template<T = {double, int}> class Tm { Tm(T t); T get() const; void serialize() const; };"),
    ("deep::er", "class D { D(); };"),
    ("ns", "template<T = {double}, U = {ns::Keep2}> class Pr { Pr(T t); enum Mode { M1, M2 }; U second(const This::Mode& m) const; };"),
    ("ns", "class Mid { Mid(); double length() const; };"),
    ("", "typedef ns::Bx<double> BxD;"),          # a typedef'd instantiation written OUTSIDE (before) the namespace of its template
]
OTHERS = {"": "double gfun(int a); class Keep { Keep(); void f() const; };",
          "ns": "class Keep2 { Keep2(); ns::Keep2 again() const; }; enum Color { Red }; void nfun(); template<T> virtual class Bx { Bx(); T get() const; }; class Ser { Ser(); void serialize() const; };",
          "deep::er": "class Keep3 { Keep3(); };"}
# a class with constructors only follows the slot of position 2 (so the chosen class sits between a serializable class and a method-less one)
AFTER_NS = "class Bare { Bare(double d); static ns::Bare Create(); };"
QUAL = {0: ["G"], 1: ["ns::A"], 2: ["ns::B"], 3: ["ns::Tm<double>", "ns::Tm<int>"], 4: ["deep::er::D"], 5: ["ns::Pr<double, ns::Keep2>"], 6: ["ns::Mid"], 7: ["ns::Bx<double>"]}
MQUAL = {0: ["G"], 1: ["ns::A"], 2: ["ns::B"], 3: ["ns::TmDouble", "ns::TmInt"], 4: ["deep::er::D"], 5: ["ns::PrDoubleKeep2"], 6: ["ns::Mid"], 7: ["ns::BxD"]}
NCLS = len(CLASSES)


def build(which, present, pos):
    """interface text with the chosen class (if present) placed before (pos=0) or after (pos=1) the other declarations of its namespace"""
    by_ns = {}
    for ns, other in OTHERS.items():
        by_ns[ns] = [other]
    ns, decl = CLASSES[which]
    if present:
        if pos == 0:
            by_ns[ns].insert(0, decl)
        else:
            by_ns[ns].append(decl)
    by_ns["ns"].append(AFTER_NS)
    out = by_ns[""][:]
    out.append("namespace ns { %s }" % " ".join(by_ns["ns"]))
    out.append("namespace deep { namespace er { %s } }" % " ".join(by_ns["deep::er"]))
    return "\n".join(out)


def renumber(text):
    """ids by order of first appearance"""
    seen = {}

    def sub(m):
        k = m.group(2)
        if k not in seen:
            seen[k] = str(len(seen))
        return m.group(1) + "#" + seen[k]
    return re.sub(r"(_wrapper\(|_)(\d+)\b", sub, text)


def check_locality(which, pos, boost):
    with_c = build(which, True, pos)
    without = build(which, False, pos)
    problems = []
    # pybind
    p_del = pipe.pybind_body(without, boost=bool(boost))
    p_ign = pipe.pybind_body(with_c, boost=bool(boost), ignore=QUAL[which])
    p_all = pipe.pybind_body(with_c, boost=bool(boost))
    if p_ign != p_del:
        d = [(a, b) for a, b in zip(p_ign.split("\n"), p_del.split("\n")) if a != b][:3]
        problems.append("pybind: ignoring %r differs from deleting the class: %r" % (QUAL[which], d or (len(p_ign), len(p_del))))
    ents_all = [e["stmt"] for e in readers.parse_pybind(p_all)]
    ents_del = [e["stmt"] for e in readers.parse_pybind(p_del)]
    missing = [s for s in ents_del if s not in ents_all]
    if missing:
        problems.append("pybind: other entities change when the class is added: %r" % missing[:2])
    # full translation unit incl. boost exports
    t_del = pipe.pybind(without, boost=bool(boost))
    t_ign = pipe.pybind(with_c, boost=bool(boost), ignore=QUAL[which])
    if t_del != t_ign:
        problems.append("pybind translation unit: ignore != delete (outside the wrapped block, e.g. BOOST_CLASS_EXPORT)")
    # matlab
    f_del, c_del, _ = pipe.matlab(without, boost=bool(boost))
    f_ign, c_ign, _ = pipe.matlab(with_c, boost=bool(boost), ignore=MQUAL[which])
    f_all, c_all, _ = pipe.matlab(with_c, boost=bool(boost))
    if sorted(f_ign) != sorted(f_del):
        problems.append("MATLAB: ignoring gives files %r, deleting gives %r" % (sorted(set(f_ign) ^ set(f_del)), ""))
    else:
        for k in f_del:
            if renumber(f_ign[k]) != renumber(f_del[k]):
                problems.append("MATLAB: %s differs between ignore and delete" % k)
    for k in f_del:
        if k.endswith(".m") and k in f_all and renumber(f_all[k]) != renumber(f_del[k]):
            problems.append("MATLAB: %s of an unrelated entity changes (beyond id renumbering) when the class is added" % k)
    if problems:
        return _fail(which=CLASSES[which][1], pos=pos, boost=boost, problems=problems)
    return True


def c15_locality(which: int, pos: int, boost: int) -> bool:
    """
    Ignoring a class == deleting its declaration (pybind: byte-identical; MATLAB: identical up to the consistent
    renumbering of gateway ids); every other entity's code is the same with and without the class.
    pre: 0 <= which < NCLS and 0 <= pos <= 1 and 0 <= boost <= 1
    pre: not (kf_open('C15-matlab-global') and which == 0)
    pre: not (kf_open('C15-ignored-enums') and which == 1)
    post: _
    """
    which, pos, boost = pick(which, 0, NCLS), pick(pos, 0, 2), pick(boost, 0, 2)
    with concrete():
        ok = check_locality(which, pos, boost)
    reached({"class": CLASSES[which][1][:40], "pos": pos, "boost": boost})
    return ok


UNRELATED_BASE = ("namespace robot { namespace arm { class Kind { Kind(); }; class User { User(); void use(robot::arm::Kind k, double w = 1) const; "
                  "robot::arm::Kind get() const; static robot::arm::Kind Make(); robot::arm::Kind held; }; double reach(robot::arm::Kind k); } }\n"
                  "class Kind { Kind(); }; class GUser { GUser(Kind k); Kind again() const; };\n")
UNRELATED_ADDITIONS = [
    "namespace robotarm { enum Kind { A, B }; }",                       # a namespace whose name is the other path with the separator dropped
    "namespace ro { namespace botarm { enum Kind { A, B }; } }",
    "namespace tools { enum Kind { A, B }; }",
    "namespace robot { namespace leg { enum Kind { A, B }; class Kind2 { Kind2(); }; } }",
    "namespace robot { enum Kind { A, B }; }",                          # an enclosing namespace
    "namespace arm { enum Kind { A, B }; class User { User(); }; }",     # the leaf name alone
    "namespace robotarm { }",
    "double Kind2(double x); void User2();",
    "namespace other { class Kind { Kind(); void m() const; }; class User { User(); }; }",
    "template<T = {double}> class Tm { Tm(T t); };",
]


def _strip_ids(text):
    return re.sub(r"(_wrapper\(|_)(\d+)\b", lambda m: m.group(1) + "#", text)


def check_unrelated(add, where, boost):
    extra = UNRELATED_ADDITIONS[add]
    base = UNRELATED_BASE
    text = (extra + "\n" + base) if where == 0 else (base + extra + "\n")
    problems = []
    # pybind: every statement of the base module is still there, unchanged
    b0 = [e["stmt"] for e in readers.parse_pybind(pipe.pybind_body(base, boost=bool(boost)))]
    b1 = [e["stmt"] for e in readers.parse_pybind(pipe.pybind_body(text, boost=bool(boost)))]
    lost = [s for s in b0 if s not in b1]
    if lost:
        problems.append("pybind: code of existing entities changed: %r" % lost[:2])
    # MATLAB: the files of the existing entities are unchanged up to gateway ids, and so are their routines
    f0, c0, _ = pipe.matlab(base, boost=bool(boost))
    f1, c1, _ = pipe.matlab(text, boost=bool(boost))
    for k, v in f0.items():
        if k.endswith(".m") and _strip_ids(f1.get(k, "")) != _strip_ids(v):
            problems.append("MATLAB: %s changed (beyond id renumbering)" % k)
    # (numbered routines only: mexFunction, _deleteAllObjects and the RTTI registry list every class by construction)
    r0 = {re.sub(r"_\d+$", "", n): _strip_ids(b) for n, b in readers.mex_routines(c0) if re.search(r"_\d+$", n)}
    r1 = {re.sub(r"_\d+$", "", n): _strip_ids(b) for n, b in readers.mex_routines(c1) if re.search(r"_\d+$", n)}
    for n, b in r0.items():
        if r1.get(n) != b:
            problems.append("MATLAB: routine %s of an existing entity changed: %r" % (n, [(x, y) for x, y in zip(b.split("\n"), (r1.get(n) or "").split("\n")) if x != y][:2]))
    if problems:
        return _fail(added=extra, where=("before", "after")[where], problems=problems[:4])
    return True


def c15_unrelated_additions(add: int, where: int, boost: int) -> bool:
    """
    Adding an UNRELATED declaration — an enum / class / function / empty namespace whose name or namespace path resembles
    existing ones (`robotarm` next to `robot::arm`, the leaf name alone, an enclosing namespace, another namespace with
    same-named classes) — before or after the existing text leaves every existing entity's pybind statements, MATLAB files
    and MEX routines unchanged (up to the renumbering of gateway ids).
    pre: 0 <= add < len(UNRELATED_ADDITIONS) and 0 <= where <= 1 and 0 <= boost <= 1
    post: _
    """
    add, where, boost = pick(add, 0, len(UNRELATED_ADDITIONS)), pick(where, 0, 2), pick(boost, 0, 2)
    with concrete():
        ok = check_unrelated(add, where, boost)
    reached({"added": UNRELATED_ADDITIONS[add][:50], "where": where, "boost": boost})
    return ok


def conds(tier):
    q = tier == "quick"
    t = (lambda x, y: x) if q else (lambda x, y: y)
    M = "harness.c15"
    return [
        xh.Cond(M, "c15_entry_pybind", t(240, 1500), examples=["entry='G'", "entry='ns::A'", "entry='A'", "entry='ns::AB'", "entry=''"],
                bounds="all ignore entries of length <= %d over {n,s,:,A,G,B}" % (6 if q else 7)),
        xh.Cond(M, "c15_entry_matlab", t(200, 900), kind="shape-bounded", examples=["e=1", "e=2", "e=3", "e=4"], bounds="%d ignore entries (exact, prefix, suffix, unqualified, ::-prefixed)" % len(ENTRIES)),
        xh.Cond(M, "c15_unrelated_additions", t(300, 900), kind="shape-bounded", path_timeout=90, examples=["add=0, where=0, boost=0", "add=1, where=1, boost=1", "add=5, where=0, boost=0", "add=8, where=1, boost=0"],
                bounds="%d unrelated additions with look-alike names / namespace paths x before | after x serialization" % len(UNRELATED_ADDITIONS)),
        xh.Cond(M, "c15_locality", t(300, 900), kind="shape-bounded", path_timeout=90, examples=["which=0, pos=0, boost=0", "which=1, pos=1, boost=1", "which=3, pos=0, boost=0", "which=2, pos=1, boost=1", "which=5, pos=0, boost=0", "which=6, pos=1, boost=1", "which=7, pos=0, boost=0", "which=7, pos=1, boost=1"],
                bounds="%d classes (global, namespaced with enum, virtual+serializable, template with 2 instantiations, nested namespace, 2-argument template with enum, plain class between a serializable and a method-less class, typedef'd instantiation written outside its template's namespace) x position x serialization" % NCLS),
    ]
