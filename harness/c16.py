"""C16 — multiple interface files and the command-line scripts compose consistently."""
import builtins
import io
import os
import re
import runpy
import sys

import gtwrap.interface_parser as parser
import gtwrap.pybind_wrapper as _pw
import gtwrap.matlab_wrapper.wrapper as _mw
from gtwrap.pybind_wrapper import PybindWrapper

from harness import pipe, readers
from harness.known import kf_open
from vlib.trace import reached, concrete, pick
from vlib import xh
from vlib.common import REPO

LAST_FAILURE = None
THOROUGH = os.environ.get("VERIF_TIER", "quick") == "thorough"
DATA = os.path.join(os.path.dirname(os.path.abspath(__file__)), "data")
LF = 4 if THOROUGH else 3


def _fail(**kw):
    global LAST_FAILURE
    LAST_FAILURE = {k: repr(v)[:1200] for k, v in kw.items()}
    return False


# ---------------------------------------------------------------- (a) MATLAB file concatenation
ALPHA = "/*\n a;"


def ref_lex(s):
    """reference lexer of the dialect restricted to ALPHA: comments stripped, identifiers maximal, `;` alone.
    Returns None when the text ends inside a block comment (not a complete file on its own)."""
    toks = []
    i, n = 0, len(s)
    cur = ""
    while i < n:
        c = s[i]
        if c == "/" and i + 1 < n and s[i + 1] == "/":
            if cur:
                toks.append(cur); cur = ""
            while i < n and s[i] != "\n":
                i += 1
            continue
        if c == "/" and i + 1 < n and s[i + 1] == "*":
            if cur:
                toks.append(cur); cur = ""
            j = i + 2
            while j + 1 < n and not (s[j] == "*" and s[j + 1] == "/"):
                j += 1
            if j + 1 >= n:
                return None
            i = j + 2
            continue
        if c == "a":
            cur += c
        else:
            if cur:
                toks.append(cur); cur = ""
            if c != " " and c != "\n":
                toks.append(c)
        i += 1
    if cur:
        toks.append(cur)
    return toks


class _Captured(Exception):
    pass


class _FakeFile:
    def __init__(self, s):
        self.s = s

    def read(self):
        return self.s

    def __enter__(self):
        return self

    def __exit__(self, *a):
        return False


def c16_matlab_concat(f1: str, tail: int) -> bool:
    """
    MatlabWrapper.wrap([file1, file2]) parses text whose token sequence is lex(file1) ++ lex(file2), whatever
    file1's final characters (no newline, trailing // comment, identifier at the very end).
    pre: len(f1) <= LF and all(c in ALPHA for c in f1) and 0 <= tail <= 2
    post: _
    """
    f2 = ("a;", "aa ;/*a*/", "\na a;")[pick(tail, 0, 3)]
    l1 = ref_lex(f1)
    if l1 is None:
        reached()
        return True                       # file1 ends inside a block comment: not a complete file
    want = l1 + ref_lex(f2)
    contents = {"one.i": f1, "two.i": f2}
    w = pipe.new_matlab_wrapper()
    captured = []

    def fake_open(name, mode="r", *a, **k):
        return _FakeFile(contents[name])

    def fake_parse(text):
        captured.append(text)
        with concrete():                   # an implementation may parse file by file: hand back an empty module and let it go on
            return old_parse("")

    old_open = _mw.__dict__.get("open")
    old_parse = parser.Module.parseString
    _mw.open = fake_open
    parser.Module.parseString = staticmethod(fake_parse)
    w.generate_content = lambda *a, **k: None
    w.wrap_namespace = lambda *a, **k: None
    w.generate_wrapper = lambda *a, **k: None
    try:
        try:
            w.wrap(["one.i", "two.i"], "/nonexistent")
        except _Captured:
            pass
    finally:
        parser.Module.parseString = staticmethod(old_parse)
        if old_open is None:
            del _mw.open
        else:
            _mw.open = old_open
    lexed = []
    for c in captured:
        lx = ref_lex(c)
        lexed = None if (lx is None or lexed is None) else lexed + lx
    ok = len(captured) >= 1 and lexed == want
    if not ok:
        with concrete():
            _fail(f1=f1, f2=f2, parsed=captured, want=want)
    reached()
    return ok


# ---------------------------------------------------------------- MATLAB: a list of files == one file holding their declarations
SPLIT_DECLS = [
    "template<T> class Box { Box(T t); T get() const; };",
    "typedef Box<Item> BoxItem;",
    "class Item { Item(); };",
    "namespace geo { class P { P(); }; }",
    "typedef geo::Wrap<Item> WrapItem;",
    "namespace geo { template<T> class Wrap { Wrap(); }; double area(const geo::P& p); }",
    "double free_fn(int a = 3);",
    "namespace geo { typedef geo::Wrap<geo::P> WrapP; typedef Box<Item> GeoBoxItem; }",     # typedefs INSIDE a namespace naming templates of other files
    "enum Kind { K1, K2 };",
    "class User { User(); void use(Kind k) const; Kind kind() const; };",                   # global class using a global enum of another file
]
ND = len(SPLIT_DECLS)
ORDERS3 = [[0, 1, 2, 3, 4, 5, 6, 7, 8, 9], [2, 0, 8, 3, 5, 1, 9, 4, 7, 6], [9, 8, 7, 6, 5, 4, 3, 2, 1, 0], [7, 1, 4, 9, 0, 5, 2, 8, 3, 6]]


def matlab_files_for(texts):
    import gtwrap.matlab_wrapper.wrapper as mw
    contents = {"f%d.i" % i: t for i, t in enumerate(texts)}
    w = pipe.new_matlab_wrapper()
    old_open = mw.__dict__.get("open")
    mw.open = lambda name, mode="r", *a, **k: _FakeFile(contents[name])
    saved_gen = w.generate_content
    w.generate_content = lambda *a, **k: None
    try:
        content = w.wrap(list(contents), "tb")
    finally:
        if old_open is None:
            del mw.open
        else:
            mw.open = old_open
    files = {}
    pipe.flatten_content(content, "", files)
    return files


def c16_matlab_split(order: int, cut1: int, cut2: int, ending: int) -> bool:
    """
    Ten declarations (templates, typedefs — at global scope and inside a namespace — of templates declared in another
    file, namespaces re-opened across files, a global class using a global enum of another file) in 4 orders, split into 1-3 files at every pair of cut points, each file ending with / without a
    newline or in a // comment: the toolbox equals the one generated from the single file.
    pre: 0 <= order < len(ORDERS3) and 0 <= cut1 <= ND and cut1 <= cut2 <= ND and 0 <= ending <= 2
    post: _
    """
    order, cut1, cut2 = pick(order, 0, len(ORDERS3)), pick(cut1, 0, ND + 1), pick(cut2, 0, ND + 1)
    ending = pick(ending, 0, 3) if THOROUGH else (cut1 + cut2 + order) % 3
    with concrete():
        decls = [SPLIT_DECLS[i] for i in ORDERS3[order]]
        end = ["\n", "", " // trailing"][ending]
        parts = [decls[:cut1], decls[cut1:cut2], decls[cut2:]]
        texts = ["\n".join(p) + end for p in parts if p]
        outcome = []
        for ts in (["\n".join(decls) + "\n"], texts):
            try:
                outcome.append(matlab_files_for(ts))
            except Exception as ex:
                outcome.append("raised %s: %s" % (type(ex).__name__, ex))
        ok = outcome[0] == outcome[1]
        if not ok:
            diff = [k for k in outcome[0] if isinstance(outcome[1], dict) and outcome[1].get(k) != outcome[0][k]] if isinstance(outcome[0], dict) else outcome[0]
            _fail(files=texts, single=outcome[0] if isinstance(outcome[0], str) else sorted(outcome[0]),
                  split=outcome[1] if isinstance(outcome[1], str) else sorted(outcome[1]), differing=diff)
    reached({"order": order, "cuts": [cut1, cut2], "ending": ending})
    return ok


# ---------------------------------------------------------------- recorder for the file system
class Recorder:
    def __init__(self, allow_read_prefixes):
        self.written = {}
        self.read = []
        self.dirs = []
        self.allow = allow_read_prefixes
        self.real_open = builtins.open

    def open(self, name, mode="r", *a, **k):
        name = str(name)
        if "w" in mode or "a" in mode or "+" in mode:
            buf = io.StringIO()
            rec = self

            class W(io.StringIO):
                def close(s2):
                    if not s2.closed and name not in rec.written:
                        rec.written[name] = s2.getvalue()
                    super().close()

                def __exit__(s2, *aa):
                    rec.written[name] = s2.getvalue()
                    super().close()
                    return False
            return W()
        self.read.append(name)
        if name.endswith("matlab_wrapper.tpl") and not os.path.exists(name):
            return io.StringIO(pipe.MATLAB_TPL_TEXT)
        return self.real_open(name, mode, *a, **k)


class FakeOs:
    def __init__(self, rec):
        self.rec = rec
        self.path = os.path

    def makedirs(self, p, exist_ok=False):
        self.rec.dirs.append(p)

    def mkdir(self, p):
        self.rec.dirs.append(p)


class patched_io:
    """route gtwrap's file-system access through a Recorder (module-level names only; nothing global)"""

    def __init__(self):
        self.rec = Recorder([REPO, DATA])

    def __enter__(self):
        self.saved = (_pw.__dict__.get("open"), _mw.__dict__.get("open"), _mw.os)
        _pw.open = self.rec.open
        _mw.open = self.rec.open
        _mw.os = FakeOs(self.rec)
        return self.rec

    def __exit__(self, *a):
        for mod, key, val in ((_pw, "open", self.saved[0]), (_mw, "open", self.saved[1])):
            if val is None:
                mod.__dict__.pop(key, None)
            else:
                setattr(mod, key, val)
        _mw.os = self.saved[2]
        return False


def read_data(name):
    with open(os.path.join(DATA, name)) as f:
        return f.read()


TPL = None


def tpl():
    global TPL
    if TPL is None:
        TPL = read_data("module.tpl")
    return TPL


# ---------------------------------------------------------------- (b) pybind parts
PARTS = ["part_a", "multi", "part_b"]        # `multi`: a stem that ends in the letter of the `.i` suffix


def check_parts(nparts, boost, order):
    names = PARTS[:nparts] if order == 0 else list(reversed(PARTS[:nparts]))
    if order == 2:
        names = PARTS[1:nparts + 1][:nparts] if nparts < 3 else [PARTS[1], PARTS[2], PARTS[0]]
    if order == 3:          # stems that are suffixes / prefixes of one another
        names = ["nonlinear", "linear", "part_a", "part"][:nparts + 1]
    if order == 4:
        names = ["part", "linear", "part_a", "nonlinear"][:nparts + 1]
    srcs = [os.path.join(DATA, "main.i")] + [os.path.join(DATA, n + ".i") for n in names]
    problems = []
    with patched_io() as rec:
        w = PybindWrapper(module_name="mymod", top_module_namespaces=[''], use_boost_serialization=bool(boost),
                          ignore_classes=[''], module_template=tpl())
        w.wrap(list(srcs), "out/main.cpp")
        main_out = rec.written.get("out/main.cpp")
        if main_out is None or list(rec.written) != ["out/main.cpp"]:
            problems.append("main wrap wrote %r" % list(rec.written))
        else:
            decls = re.findall(r"^void (\w+)\(py::module_ &\);$", main_out, re.M)
            inits = re.findall(r"^(\w+)\(m_\);$", main_out, re.M)
            if decls != names or inits != names:
                problems.append("main declares %r and invokes %r, files are %r" % (decls, inits, names))
            if "PYBIND11_MODULE(mymod, m_)" not in main_out:
                problems.append("main module definition missing")
            fresh = PybindWrapper(module_name="mymod", top_module_namespaces=[''], use_boost_serialization=bool(boost),
                                  ignore_classes=[''], module_template="{wrapped_namespace}|{boost_class_export}|{includes}")
            alone = fresh.wrap_file(read_data("main.i"), module_name="mymod", submodules=[])
            wn, be, inc = alone.split("|")
            if wn not in main_out or be not in main_out:
                problems.append("main output does not contain what wrapping main.i alone yields")
        # the same wrapper object goes on to wrap the parts (what one build process may do)
        for n in names:
            rec.written.clear()
            w.wrap_submodule(os.path.join(DATA, n + ".i"))
            if list(rec.written) != [n + ".cpp"]:
                problems.append("wrap_submodule(%s) wrote %r" % (n, list(rec.written)))
                continue
            out = rec.written[n + ".cpp"]
            if len(re.findall(r"^void %s\(py::module_ &m_\) \{$" % n, out, re.M)) != 1 or "PYBIND11_MODULE" in out:
                problems.append("%s.cpp does not define exactly `void %s(py::module_ &m_)`" % (n, n))
            fresh = PybindWrapper(module_name="mymod", top_module_namespaces=[''], use_boost_serialization=bool(boost),
                                  ignore_classes=[''], module_template=tpl())
            alone = fresh.wrap_file(read_data(n + ".i"), module_name=n)
            if out != alone:
                problems.append("%s.cpp differs from wrapping its text alone" % n)
    if problems:
        return _fail(parts=names, boost=boost, problems=problems)
    return True


def c16_pybind_parts(nparts: int, boost: int, order: int) -> bool:
    """
    Main output declares and invokes one initialiser per additional file, in order; each part's output defines
    exactly that initialiser and equals wrapping its text alone (same wrapper object used throughout).
    pre: 0 <= nparts <= 3 and 0 <= boost <= 1 and 0 <= order <= 4
    post: _
    """
    nparts, boost, order = pick(nparts, 0, 4), pick(boost, 0, 2), pick(order, 0, 5)
    with concrete():
        ok = check_parts(nparts, boost, order)
    reached({"nparts": nparts, "boost": boost, "order": order})
    return ok


# ---------------------------------------------------------------- (c) scripts vs API
TOPS = ["", "gt", "gt::sub", "::gt", "nomatch"]
IGN = [None, [], ["gt::Main"], ["Glob", "gt::sub::Inner"], ["gt::Pair2<int, double>"]]


def run_script(script, argv):
    old = sys.argv
    sys.argv = [script] + argv
    stderr = sys.stderr
    sys.stderr = io.StringIO()
    try:
        runpy.run_path(os.path.join(REPO, "scripts", script), run_name="__main__")
    finally:
        sys.argv = old
        sys.stderr = stderr


def api_top(v):
    return [''] + v.split("::") if (v and v.split("::")[0]) else (v.split("::") if v else [''])


def check_scripts(which, top, ign, boost, sub):
    problems = []
    topv, ignv = TOPS[top], IGN[ign]
    argv_common = ["--module_name", "mymod", "--top_module_namespaces", topv]
    if ignv is not None:
        argv_common += ["--ignore"] + ignv
    if boost:
        argv_common += ["--use-boost-serialization"]
    if which == 0:
        src = os.path.join(DATA, "part_a.i" if sub else "main.i")
        argv = argv_common + ["--src", src, "--out", "out/x.cpp", "--template", os.path.join(DATA, "module.tpl")] + (["--is_submodule"] if sub else [])
        with patched_io() as rec:
            try:
                run_script("pybind_wrap.py", argv)
                got = dict(rec.written)
            except BaseException as ex:
                if type(ex).__name__ in ("IgnoreAttempt", "UnexploreableStatePath", "NotDeterministic", "PathTimeout", "CrossHairInternal"):
                    raise
                got = "script raised %s: %s" % (type(ex).__name__, ex)
        with patched_io() as rec:
            w = PybindWrapper(module_name="mymod", top_module_namespaces=api_top(topv), use_boost_serialization=bool(boost),
                              ignore_classes=list(ignv or []), module_template=tpl())
            if sub:
                w.wrap_submodule(src)
            else:
                w.wrap([src], "out/x.cpp")
            want = dict(rec.written)
    else:
        srcs = [os.path.join(DATA, "main.i"), os.path.join(DATA, "part_a.i")][:1 + sub]
        argv = argv_common + ["--src", ";".join(srcs), "--out", "outdir"]
        with patched_io() as rec:
            try:
                run_script("matlab_wrap.py", argv)
                got = dict(rec.written)
            except BaseException as ex:
                if type(ex).__name__ in ("IgnoreAttempt", "UnexploreableStatePath", "NotDeterministic", "PathTimeout", "CrossHairInternal"):
                    raise
                got = "script raised %s: %s" % (type(ex).__name__, ex)
        with patched_io() as rec:
            from gtwrap.matlab_wrapper import MatlabWrapper
            w = MatlabWrapper(module_name="mymod", top_module_namespace=api_top(topv), ignore_classes=list(ignv or []),
                              use_boost_serialization=bool(boost))
            w.wrap(srcs, path="outdir")
            want = dict(rec.written)
    if got != want:
        if isinstance(got, str):
            problems.append(got)
        else:
            problems.append("script wrote %r, API wrote %r; differing: %r" % (sorted(got), sorted(want), [k for k in want if got.get(k) != want[k]][:5]))
    if problems:
        return _fail(which=("pybind_wrap.py", "matlab_wrap.py")[which], argv=argv, problems=problems)
    return True


def c16_scripts(which: int, top: int, ign: int, boost: int, sub: int) -> bool:
    """
    Each command-line script writes exactly what the library API writes for the corresponding options.
    pre: 0 <= which <= 1 and 0 <= top < 5 and 0 <= ign < 5 and 0 <= boost <= 1 and 0 <= sub <= 1
    pre: not (kf_open('C16-ignore-absent') and ign == 0)
    post: _
    """
    which, top, ign, boost, sub = pick(which, 0, 2), pick(top, 0, 5), pick(ign, 0, 5), pick(boost, 0, 2), pick(sub, 0, 2)
    with concrete():
        ok = check_scripts(which, top, ign, boost, sub)
    reached({"script": which, "top": TOPS[top], "ignore": IGN[ign], "boost": boost, "sub": sub} if (not ok or (top == 2 and ign == 2)) else None)
    return ok


def c16_top_split(v: str) -> bool:
    """
    The namespace list the scripts derive from --top_module_namespaces: '' -> [''], 'a::b' -> ['', 'a', 'b'].
    (The two statements are read from the script source, so this follows the code as it is.)
    pre: len(v) <= 6 and all(c in "ab:" for c in v)
    pre: "::" in v or ":" not in v
    post: _
    """
    with concrete():
        src = open(os.path.join(REPO, "scripts", "pybind_wrap.py")).read()
        m = re.search(r"(    top_module_namespaces = args\.top_module_namespaces\.split\(\"::\"\)\n(?:    .*\n)+?)\n", src)
        code = "def _f(args):\n" + m.group(1) + "    return top_module_namespaces\n"
        ns = {}
        exec(compile(code, "pybind_wrap_excerpt", "exec"), ns)

    class A:
        pass
    a = A()
    a.top_module_namespaces = v
    got = ns["_f"](a)
    parts = v.split("::")
    want = [''] if v == "" else ([''] + parts if parts[0] != "" else parts)
    ok = got == want
    if not ok:
        with concrete():
            _fail(v=v, got=got, want=want)
    reached()
    return ok


def c16_outputs_replace_existing(entry: int, v: int, boost: int) -> bool:
    """
    Main output, part output and MATLAB toolbox written into a directory that already holds files of those names
    (longer, shorter, other line ends, unrelated text): each output is precisely what the same call writes into an empty
    directory — no remainder of an earlier, longer file follows the new code.  (real temporary directory)
    pre: 0 <= entry <= 2 and 1 <= v <= 7 and 0 <= boost <= 1
    post: _
    """
    from harness import c14
    entry, v, boost = pick(entry, 0, 3), pick(v, 1, len(c14.VARIANTS)), pick(boost, 0, 2)
    with concrete():
        ok = c14.c14_existing_output.__wrapped__(entry, v, boost) if hasattr(c14.c14_existing_output, "__wrapped__") else c14.c14_existing_output(entry, v, boost)
        if not ok:
            global LAST_FAILURE
            LAST_FAILURE = c14.LAST_FAILURE
    reached({"entry": entry, "previous": c14.VARIANTS[v], "boost": boost})
    return ok


def conds(tier):
    q = tier == "quick"
    t = (lambda x, y: x) if q else (lambda x, y: y)
    M = "harness.c16"
    return [
        xh.Cond(M, "c16_matlab_concat", t(300, 1800), examples=["f1='a', tail=0", "f1='a;//a', tail=1", "f1='a;\\n', tail=0", "f1='/*a*/', tail=2"],
                bounds="file1: all strings of length <= %d over {/,*,newline,space,a,;}; file2: 3 fixed continuations" % (3 if q else 4)),
        xh.Cond(M, "c16_matlab_split", t(420, 1800), kind="shape-bounded", path_timeout=60, examples=["order=1, cut1=2, cut2=5, ending=2", "order=3, cut1=1, cut2=1, ending=1", "order=3, cut1=3, cut2=5, ending=0", "order=0, cut1=7, cut2=9, ending=1"],
                bounds="4 declaration orders x all pairs of cut points among 10 declarations%s" % (" x 3 file endings" if not q else "; file ending derived")),
        xh.Cond(M, "c16_outputs_replace_existing", t(200, 600), kind="shape-bounded", examples=["entry=0, v=6, boost=0", "entry=1, v=6, boost=1", "entry=2, v=5, boost=0"],
                bounds="3 entry points x 7 previous contents of the output paths x serialization"),
        xh.Cond(M, "c16_pybind_parts", t(200, 900), kind="shape-bounded", examples=["nparts=2, boost=1, order=0", "nparts=3, boost=0, order=3", "nparts=1, boost=1, order=3", "nparts=3, boost=1, order=4"], bounds="0-4 additional files x serialization x 5 orders (file stems that end in i, that are suffixes / prefixes of one another)"),
        xh.Cond(M, "c16_scripts", t(420, 1800), kind="shape-bounded", path_timeout=60, examples=["which=0, top=1, ign=2, boost=0, sub=0", "which=1, top=0, ign=0, boost=0, sub=1", "which=0, top=0, ign=0, boost=1, sub=1"],
                bounds="2 scripts x 5 --top_module_namespaces values x 5 --ignore forms (absent, empty, one, two, a template instantiation whose name contains a comma) x serialization x (submodule | second file)"),
        xh.Cond(M, "c16_top_split", t(120, 600), examples=["v=''", "v='a::b'", "v='::a'"], bounds="all option values of length <= 6 over {a,b,:}"),
    ]
