"""C17 — embedded docstrings: right text, correctly escaped, nothing else changes."""
import os
import re
import xml.etree.ElementTree as ET

import gtwrap.interface_parser as parser
from gtwrap.pybind_wrapper import PybindWrapper
from gtwrap.xml_parser.xml_parser import XMLDocParser

from harness import pipe
from harness.known import kf_open
from vlib.trace import reached, concrete, pick
from vlib import xh

LAST_FAILURE = None
THOROUGH = os.environ.get("VERIF_TIER", "quick") == "thorough"
LT = 3 if THOROUGH else 2
HEX = "0123456789abcdefABCDEF"
OCT = "01234567"


def _fail(**kw):
    global LAST_FAILURE
    LAST_FAILURE = {k: repr(v)[:600] for k, v in kw.items()}
    return False


# ---------------------------------------------------------------- reference: C++ narrow string literal -> bytes
def utf8(cp):
    """UTF-8 bytes of a code point, written with // and % only (CrossHair keeps these symbolic; it realises
    the operand of a bitwise operator, which would enumerate code points one by one)"""
    if cp < 0x80:
        return [cp]
    if cp < 0x800:
        return [0xC0 + cp // 64, 0x80 + cp % 64]
    if cp < 0x10000:
        return [0xE0 + cp // 4096, 0x80 + (cp // 64) % 64, 0x80 + cp % 64]
    return [0xF0 + cp // 262144, 0x80 + (cp // 4096) % 64, 0x80 + (cp // 64) % 64, 0x80 + cp % 64]


def hexval(c):
    o = ord(c)
    if 48 <= o <= 57:
        return o - 48
    if 97 <= o <= 102:
        return o - 87
    return o - 55


def c_decode(lit):
    """bytes (list of ints) a C++17 compiler with UTF-8 source and execution character sets gives the body of
    an ordinary string literal; None if the literal is ill-formed (raw newline / quote, bad or out-of-range escape)."""
    out = []
    i, n = 0, len(lit)
    while i < n:
        c = lit[i]
        if c == '"' or c == "\n" or c == "\r":
            return None
        if c != "\\":
            out += utf8(ord(c))
            i += 1
            continue
        i += 1
        if i >= n:
            return None
        e = lit[i]
        simple = {"n": 10, "t": 9, "r": 13, "\\": 92, "'": 39, '"': 34, "?": 63, "a": 7, "b": 8, "f": 12, "v": 11}
        if e in simple:
            out.append(simple[e])
            i += 1
        elif e in OCT:
            v, j = 0, i
            while j < n and j < i + 3 and lit[j] in OCT:
                v = v * 8 + (ord(lit[j]) - 48)
                j += 1
            if v > 255:
                return None
            out.append(v)
            i = j
        elif e == "x":
            j, v = i + 1, 0
            while j < n and lit[j] in HEX:
                v = v * 16 + hexval(lit[j])
                j += 1
            if j == i + 1 or v > 255:
                return None          # no digits, or value does not fit a char (hex escapes take ALL following hex digits)
            out.append(v)
            i = j
        elif e == "u" or e == "U":
            k = 4 if e == "u" else 8
            if i + k >= n + 0 and i + 1 + k > n:
                return None
            v = 0
            for ch in lit[i + 1:i + 1 + k]:
                if ch not in HEX:
                    return None
                v = v * 16 + hexval(ch)
            if v < 0xA0 and v not in (0x24, 0x40, 0x60):
                return None          # a universal-character-name may not name a control or basic character
            if 0xD800 <= v <= 0xDFFF or v > 0x10FFFF:
                return None
            out += utf8(v)
            i += 1 + k
        else:
            return None
    return out


def utf8_text(text):
    out = []
    for ch in text:
        out += utf8(ord(ch))
    return out


with concrete():
    _M = parser.Module.parseString("class A { void f() const; };")
PREFIX = '.def("f",[](A* self){ self->f();}, "'


def _literal_for(text):
    w = PybindWrapper(module_name="m", top_module_namespaces=[''], ignore_classes=[''], module_template=pipe.PYBIND_TPL, xml_source="xml")
    w.xml_parser.extract_docstring = lambda *a, **k: text
    out = w._wrap_method(_M.content[0].methods[0], "A", "", "")
    if not (out.startswith(PREFIX) and out.endswith('")')):
        return None
    return out[len(PREFIX):-2]


def c17_escape_any(text: str) -> bool:
    """
    The emitted literal decodes, by the C++ rules, to exactly the UTF-8 bytes of the documentation text.
    pre: len(text) <= LT
    pre: all(not (0xD800 <= ord(c) <= 0xDFFF) for c in text)
    post: _
    """
    lit = _literal_for(text)
    ok = lit is not None and c_decode(lit) == utf8_text(text)
    if not ok:
        with concrete():
            _fail(text=text, literal=lit)
    reached()
    return ok


FOLLOW = "0123456789abcdefABCDEF\"\\?z"


def _cls_char(cls, x):
    """one code point of class `cls`: x is an offset inside the class"""
    lo, hi = [(0x00, 0x20), (0x20, 0x7F), (0x7F, 0xA1), (0xA1, 0x800), (0x800, 0xD800), (0xE000, 0x10000), (0x10000, 0x110000)][cls]
    return lo, hi


def c17_escape_class(cls: int, cp: int, nxt: int) -> bool:
    """
    Per character class (ASCII control, ASCII printable, C1/NBSP region, 2-, 3-, 4-byte UTF-8): one symbolic
    code point followed by one symbolic character from the context-sensitive set (hex digits, quote, backslash, ?, other).
    pre: 0 <= cls <= 6 and 0 <= cp < 0x110000 and 0 <= nxt < len(FOLLOW)
    post: _
    """
    cls = pick(cls, 0, 7)
    lo, hi = _cls_char(cls, 0)
    if not (lo <= cp < hi):
        reached()
        return True
    follow = FOLLOW[pick(nxt, 0, len(FOLLOW))]
    text = chr(cp) + follow
    lit = _literal_for(text)
    ok = lit is not None and c_decode(lit) == utf8_text(text)
    if not ok:
        with concrete():
            _fail(text=text, literal=lit)
    reached()
    return ok


# ---------------------------------------------------------------- long documentation texts
def c_decode_adjacent(body):
    """as c_decode for a sequence of adjacent string literals `"..." "..."` (body = text between the first opening and the
    last closing quote): a compiler decodes every literal on its own (an escape sequence never continues into the next
    literal) and concatenates the results; None if any piece is ill-formed"""
    pieces, cur, i, n = [], "", 0, len(body)
    while i < n:
        c = body[i]
        if c == "\\" and i + 1 < n:
            cur += body[i:i + 2]
            i += 2
            continue
        if c == '"':
            j = i + 1
            while j < n and body[j] in " \t\n":
                j += 1
            if j >= n or body[j] != '"':
                return None
            pieces.append(cur)
            cur = ""
            i = j + 1
            continue
        cur += c
        i += 1
    pieces.append(cur)
    out = []
    for piece in pieces:
        d = c_decode(piece)
        if d is None:
            return None
        out += d
    return out


LONG_CHARS = ["\x7f", "\x01", '"', "\\", "\n", "\xe9", "?", "0", "\U0001F600"]
LONG_LENGTHS = [300, 1100, 4200, 17000, 66000]


def c17_long_text(length: int, off: int, ch: int, mix: int) -> bool:
    """
    Documentation of realistic and of extreme length (300 ... 66000 characters, beyond every compiler's limit for ONE
    literal): 0-3 ordinary characters followed by a run of one character that needs an escape (or does not), or of that
    character alternating with a digit. Whether the text is emitted as one literal or as several adjacent ones, the
    compiler's decoding — each literal on its own, then concatenated — gives exactly the text: an escape sequence cut by
    a literal boundary at ANY multiple of any chunk size would show for one of the four offsets.
    pre: 0 <= length < len(LONG_LENGTHS) and 0 <= off <= 3 and 0 <= ch < len(LONG_CHARS) and 0 <= mix <= 1
    post: _
    """
    length, off, ch, mix = pick(length, 0, len(LONG_LENGTHS)), pick(off, 0, 4), pick(ch, 0, len(LONG_CHARS)), pick(mix, 0, 2)
    with concrete():
        unit = LONG_CHARS[ch] + ("7" if mix else "")
        text = "abc"[:off] + unit * (LONG_LENGTHS[length] // len(unit))
        lit = _literal_for(text)
        got = c_decode_adjacent(lit) if lit is not None else None
        ok = got == utf8_text(text)
        if not ok:
            where = next((k for k, (a, b) in enumerate(zip(got or [], utf8_text(text))) if a != b), None)
            _fail(text_length=len(text), unit=unit, offset=off, first_wrong_byte=where, literal_around=(lit or "")[max(0, (where or 0) * 2 - 40):(where or 0) * 4 + 40][:200])
    reached({"length": LONG_LENGTHS[length], "off": off, "ch": ch, "mix": mix})
    return ok


# ---------------------------------------------------------------- overload selection on real Element trees
def mk_member(name, params, brief, pdocs=False):
    md = ET.Element("memberdef", {"kind": "function"})
    ET.SubElement(md, "name").text = name
    ET.SubElement(md, "argsstring").text = "(...)"
    for pname, has_default in params:
        p = ET.SubElement(md, "param")
        ET.SubElement(p, "type").text = "int"
        if pname is not None:
            ET.SubElement(p, "declname").text = pname
        if has_default == "ref":                    # Doxygen cross-references a default that starts with a documented symbol
            dv = ET.SubElement(p, "defval")
            r = ET.SubElement(dv, "ref", {"refid": "classns_1_1Model", "kindref": "compound"})
            r.text, r.tail = "ns::Model::Create", "(3)"
        elif has_default == "empty":
            ET.SubElement(p, "defval")
        elif has_default:
            ET.SubElement(p, "defval").text = "0"
    b = ET.SubElement(md, "briefdescription")
    if brief is not None:
        ET.SubElement(b, "para").text = brief
    dd = ET.SubElement(md, "detaileddescription")
    if pdocs and params:
        pl = ET.SubElement(ET.SubElement(dd, "para"), "parameterlist", {"kind": "param"})
        for pname, _d in params:
            it = ET.SubElement(pl, "parameteritem")
            ET.SubElement(ET.SubElement(it, "parameternamelist"), "parametername").text = pname
            ET.SubElement(ET.SubElement(it, "parameterdescription"), "para").text = "about %s in %s" % (pname, brief)
    return md


POOLN = ["key", "value", "x"]


def expected_doc(members, query):
    """reference of the property: the member whose parameter names equal the query on the first len(query)
    positions and whose required-or-total count matches; indistinguishable members served in document order"""
    hits = []
    for params, brief in members:
        tot = len(params)
        req = tot - sum(1 for _n, d in params if d)
        if len(query) != req and len(query) != tot:
            continue
        if all(params[i][0] == q for i, q in enumerate(query)):
            # the member's own documentation: its brief and the description of every parameter named in the query
            hits.append((brief + "\n" + "".join("%s: about %s in %s\n" % (n, n, brief) for n, _d in params[:len(query)])).strip())
    return hits


def c17_overloads(shape: int, q: int, sym: str) -> bool:
    """
    1-3 member definitions with 0-3 parameters (some defaulted, one name symbolic), queried with the argument
    names of each declared overload in turn: the returned text is the brief of the matching member(s), in
    document order when indistinguishable, '' when none matches; never an exception.
    pre: 0 <= shape < 17 and 0 <= q < 4 and pipe.is_ident(sym, 1, 3) and sym not in POOLN
    post: _
    """
    shape, q = pick(shape, 0, 17), pick(q, 0, 4)
    SH = [
        [([("key", False), ("value", False)], "kv"), ([("value", False), ("key", False)], "vk")],
        [([("key", False)], "one"), ([("key", False), ("value", True)], "two")],
        [([("key", False), (sym, False)], "ks"), ([("key", False), ("value", False)], "kv")],
        [([], "none"), ([("x", True)], "optx")],
        [([("key", False)], "first"), ([("key", False)], "second")],
        [([(sym, False), ("x", True), ("value", True)], "s-x-v")],
        [([("key", False), ("value", False), ("x", False)], "kvx"), ([("key", False), ("x", False), ("value", False)], "kxv"), ([("x", False)], "x")],
        [([("key", True), ("value", True)], "both-optional")],
        [([(sym, False)], "sym"), ([("value", False)], "value")],
        [([("key", False), ("value", False)], "kv"), ([("key", False), ("value", False)], "kv2"), ([("key", False)], "k")],
        [],
        [([("value", False), (sym, True)], "v-s")],
        [([("key", False)], "k"), ([("x", False), ("key", True)], "x-optkey")],                      # another overload's optional parameter has the queried name
        [([("key", False), ("value", False)], "kv"), ([("x", False), ("key", False), ("value", True)], "xk-optv"), ([("x", False), ("value", True)], "x-optv")],
        [([(sym, False)], "s"), ([("key", False), (sym, True)], "k-opts"), ([("value", False), ("x", True), (sym, True)], "v-optx-opts")],
        [([("key", False), ("value", "ref")], "k-refv")],                                          # default value = cross-referenced symbol
        [([("key", False), ("value", "ref"), ("x", "empty")], "k-refv-emptyx"), ([("x", "ref")], "refx")],
    ][shape]
    QUERIES = [["key", "value"], ["key"], [], ["value", "key"], [sym], ["key", sym], ["x"], ["value"], ["key", "value", "x"], ["key", "x", "value"], ["value", sym], [sym, "x", "value"]]
    xp = XMLDocParser()
    elems = [mk_member("f", ps, br, pdocs=True) for ps, br in SH]
    xp.get_member_defs = lambda *a, **k: elems
    ok = True
    qs = [QUERIES[(q * 3 + j + shape) % len(QUERIES)] for j in range(3)]
    for query in qs:
        hits = expected_doc(SH, query)
        # first call serves the first indistinguishable member, the second call the next one
        for nth in range(2):
            try:
                got = xp.extract_docstring("xml", "A", "f", list(query))
            except Exception as ex:
                with concrete():
                    _fail(shape=shape, query=query, exception=repr(ex))
                reached()
                return False
            want = hits[nth] if nth < len(hits) else (hits[-1] if False else None)
            if not hits:
                want = ""
            if want is None:
                continue                 # more calls than indistinguishable members: unspecified
            if got != want:
                ok = False
                with concrete():
                    _fail(shape=shape, query=query, call=nth, got=got, want=want)
    reached()
    return ok


def c17_partial_xml(shape: int) -> bool:
    """
    Members lacking argsstring / declname / para, missing class, unreadable XML: '' (or the text that exists), never an exception.
    pre: 0 <= shape < 6
    post: _
    """
    shape = pick(shape, 0, 6)
    with concrete():
        xp = XMLDocParser()
        md = mk_member("f", [("key", False)], "doc")
        want = "doc"
        if shape == 0:
            md.remove(md.find("argsstring"))
        elif shape == 1:
            md.find("param").remove(md.find("param").find("declname")); want = ""
        elif shape == 2:
            md.find("briefdescription").remove(md.find("briefdescription").find("para")); want = ""
        elif shape == 3:
            md.remove(md.find("detaileddescription"))
        elif shape == 4:
            md = mk_member("f", [("key", False), ("opt", True)], "doc"); md.findall("param")[1].remove(md.findall("param")[1].find("declname"))
        if shape == 5:
            xp.get_member_defs = lambda *a, **k: ""
            want = ""
        else:
            xp.get_member_defs = lambda *a, **k: [md]
        try:
            got = xp.extract_docstring("xml", "A", "f", ["key"])
            ok = got == want
            if not ok:
                _fail(shape=shape, got=got, want=want)
        except Exception as ex:
            ok = _fail(shape=shape, exception=repr(ex))
    reached()
    return ok


# ---------------------------------------------------------------- a real Doxygen XML folder (index.xml + compound files)
KINDS = ["class", "struct", "union", "interface"]
TARGETS = ["ns::Params", "Params", "ns::Params<T>", "ns::inner::Params"]


def _compound_file(cname, refid, kind, members):
    root = ET.Element("doxygen")
    cd = ET.SubElement(root, "compounddef", {"id": refid, "kind": kind})
    ET.SubElement(cd, "compoundname").text = cname
    sec = ET.SubElement(cd, "sectiondef", {"kind": "public-func"})
    for md in members:
        sec.append(md)
    return ET.tostring(root, encoding="unicode")


def write_xml_folder(root, kind, pos, target):
    """index.xml lists a namespace, a file, decoy classes (one whose name extends the target's, one equal to its last
    component) and the target compound of the given kind at position pos; every compound documents a method `set(key)`"""
    decoys = [("ns::ParamsExtra", "class"), ("Other", "class"), ("ns::Para", "struct")]
    comps = [("ns", "namespace", "namespacens"), ("Params_8h", "file", "Params_8h")]
    entries = [(n, k, "%s%s" % (k, re.sub(r"[^A-Za-z0-9]", "_", n))) for n, k in decoys]
    entries.insert(pos, (target, kind, "%s%s" % (kind, re.sub(r"[^A-Za-z0-9]", "_", target)) + "_t"))
    comps += entries
    # Doxygen lists groups, directories and pages after the classes: a \\defgroup or a source directory may carry the class's name
    comps += [(target, "group", "group__" + re.sub(r"[^A-Za-z0-9]", "_", target)), (target.split("::")[-1], "dir", "dir_0123")]
    idx = ET.Element("doxygenindex")
    for n, k, refid in comps:
        c = ET.SubElement(idx, "compound", {"refid": refid, "kind": k})
        ET.SubElement(c, "name").text = n
        if k not in ("namespace", "file", "group", "dir"):
            m = ET.SubElement(c, "member", {"refid": refid + "_1a", "kind": "function"})
            ET.SubElement(m, "name").text = "set"
    with open(os.path.join(root, "index.xml"), "w") as f:
        f.write(ET.tostring(idx, encoding="unicode"))
    for n, k, refid in comps:
        members = [] if k in ("namespace", "file", "group", "dir") else [mk_member("set", [("key", False)], "set of %s" % n, pdocs=True),
                                                            mk_member("dup", [("key", False)], "dup first"), mk_member("dup", [("key", False)], "dup second"),
                                                            mk_member("dup", [("key", False)], "dup third"), mk_member("get", [], "get of %s" % n)]
        # what real Doxygen output carries on every member: the place of the declaration.  The three indistinguishable `dup`
        # overloads stand in lines 9, 10 and 100 — document order is numeric order, not the order of the attribute strings
        for md, line in zip(members, ("8", "9", "10", "100", "101")):
            ET.SubElement(md, "location", {"file": "include/ns/Params.h", "line": line, "column": "5", "declfile": "include/ns/Params.h", "declline": line})
        with open(os.path.join(root, refid + ".xml"), "w") as f:
            f.write(_compound_file(n, refid, k, members))


def c17_xml_folder(kind: int, pos: int, target: int) -> bool:
    """
    Through the real files of a Doxygen XML folder: the documentation of `Class::set(key)` is found for a compound that
    Doxygen lists as class, struct, union or interface, wherever it stands in index.xml, and is never taken from a
    compound whose name merely extends or abbreviates the class name; a class that is not listed gives ''.
    pre: 0 <= kind < 4 and 0 <= pos <= 3 and 0 <= target < len(TARGETS)
    post: _
    """
    kind, pos, target = pick(kind, 0, 4), pick(pos, 0, 4), pick(target, 0, len(TARGETS))
    with concrete():
        import shutil
        import tempfile
        d = tempfile.mkdtemp(prefix="c17_")
        try:
            name = TARGETS[target]
            write_xml_folder(d, KINDS[kind], pos, name)
            problems = []
            xp = XMLDocParser()
            for cls, want in ((name, "set of %s\nkey: about key in set of %s" % (name, name)), ("ns::ParamsExtra", "set of ns::ParamsExtra\nkey: about key in set of ns::ParamsExtra"),
                              ("ns::Missing", ""), ("ns::Param", "")):
                try:
                    got = xp.extract_docstring(d, cls, "set", ["key"])
                except Exception as ex:
                    got = "raised %r" % ex
                if got != want:
                    problems.append("%s::set(key): docstring %r, documented %r" % (cls, got, want))
            try:
                got = xp.extract_docstring(d, name, "get", [])
            except Exception as ex:
                got = "raised %r" % ex
            if got != "get of %s" % name:
                problems.append("%s::get(): docstring %r" % (name, got))
            for want in ("dup first", "dup second", "dup third"):
                try:
                    got = xp.extract_docstring(d, name, "dup", ["key"])
                except Exception as ex:
                    got = "raised %r" % ex
                if got != want:
                    problems.append("%s::dup(key), indistinguishable overloads in document order: docstring %r, documented %r" % (name, got, want))
        finally:
            shutil.rmtree(d, ignore_errors=True)
        ok = not problems or _fail(kind=KINDS[kind], position=pos, target=name, problems=problems)
    reached({"kind": KINDS[kind], "pos": pos, "target": TARGETS[target]})
    return ok


def c17_nothing_else_changes(n: int, k: int, role: int) -> bool:
    """
    With XML supplied, the generated code minus the docstring literals equals the code generated without XML.
    pre: 0 <= n <= 2 and 0 <= k <= n and 0 <= role <= 2
    post: _
    """
    n, k, role = pick(n, 0, 3), pick(k, 0, 3), pick(role, 0, 3)
    with concrete():
        from harness.shapes import mk_args, args_itext, PRELUDE
        from harness import readers
        args = mk_args([3, 1][:n], k)
        member = ["void doIt(%s) const;" % args_itext(args), "static double doIt(%s);" % args_itext(args), "int doIt(%s);" % args_itext(args)][role]
        text = PRELUDE + "namespace top { class Cls { Cls(); %s void other(); }; void fn(int a); }" % member
        plain = pipe.pybind_body(text)
        w = PybindWrapper(module_name="mod", top_module_namespaces=[''], ignore_classes=[''], module_template=pipe.PYBIND_TPL, xml_source="xmlsrc")
        w.xml_parser.extract_docstring = lambda folder, cls, meth, names: "doc of %s.%s(%s)" % (cls, meth, ",".join(names))
        withdoc = pipe.pybind_body(text, wrapper=w)
        ents = readers.parse_pybind(withdoc)
        stripped = withdoc
        ndocs = 0
        for e in ents:
            for d in e.get("defs", []):
                if d.get("doc"):
                    ndocs += 1
                    stripped = stripped.replace(", " + d["doc"] + ")", ")", 1)
        ok = stripped == plain and ndocs >= 2
        if not ok:
            _fail(text=text, plain=plain, withdoc=withdoc, ndocs=ndocs)
    reached()
    return ok


DOC_METHODS = ["run", "lambda", "global", "del", "markdown", "svg", "print", "serialize", "insert", "in", "is", "html", "pass", "plain_name"]


def c17_documented_member(i: int, static: int, nargs: int) -> bool:
    """
    The documentation attached to a binding is looked up under the C++ member's own name and class — also when the Python
    binding is named differently (keywords get `_`, ipython display methods become `_repr_x_`, print becomes __repr__):
    every binding of `Cls::<name>` carries `doc of top::Cls.<name>(<args>)`.
    pre: 0 <= i < len(DOC_METHODS) and 0 <= static <= 1 and 0 <= nargs <= 2
    post: _
    """
    i, static, nargs = pick(i, 0, len(DOC_METHODS)), pick(static, 0, 2), pick(nargs, 0, 3)
    with concrete():
        from harness import readers
        name = DOC_METHODS[i]
        args = ["int key", "double value = 1.5"][:nargs]
        names = ["key", "value"][:nargs]
        member = ("static double %s(%s);" if static else "double %s(%s) const;") % (name, ", ".join(args))
        text = "namespace top { class Cls { Cls(); %s void other(int z) const; }; }" % member
        w = PybindWrapper(module_name="mod", top_module_namespaces=[''], ignore_classes=[''], module_template=pipe.PYBIND_TPL, xml_source="xmlsrc")
        asked = []

        def fake(folder, cls, meth, argnames):
            asked.append((cls, meth, tuple(argnames)))
            return "doc of %s.%s(%s)" % (cls, meth, ",".join(argnames))
        w.xml_parser.extract_docstring = fake
        problems = []
        try:
            body = pipe.pybind_body(text, wrapper=w)
        except Exception as ex:
            body = ""
            problems.append("raised %r" % ex)
        def text_of(lit):            # body of the literal -> bytes -> text
            by = c_decode(lit[1:-1]) if len(lit) >= 2 and lit[0] == lit[-1] == '"' else None
            return None if by is None else bytes(by).decode("utf-8", "replace")
        docs = [text_of(d["doc"]) for e in readers.parse_pybind(body) for d in e.get("defs", []) if d.get("doc")] if body else []
        special = name in ("serialize", "print") or (static and name in ("markdown", "svg", "html"))
        if not special and not problems:
            want_full = "doc of top::Cls.%s(%s)" % (name, ",".join(names))
            want_short = None          # (pybind keeps one binding with a keyword default; nothing to look up for a shorter form)
            if want_full not in docs:
                problems.append("no binding carries %r; docstrings present: %r; lookups made: %r" % (want_full, docs, asked))
            if want_short and want_short not in docs:
                problems.append("the binding without the defaulted argument does not carry %r; docstrings present: %r" % (want_short, docs))
        bad = [a for a in asked if a[0] != "top::Cls" or a[1] not in (name, "other", "Cls")]
        if bad:
            problems.append("documentation looked up under a name that is not a C++ member of the class: %r" % bad[:3])
        ok = not problems or _fail(text=text, problems=problems)
    reached({"name": DOC_METHODS[i], "static": static, "nargs": nargs})
    return ok


CODE_TEXTS = ["calls self->print(s) on the stream", "self->print", "like self->run(s); or Cls::run", "see .def(\"print\", ...) and py::arg(\"s\")",
              "{prefix}{suffix} {} {0} {cpp_class}", "%s %d %(name)s", "__repr__ uses self.print(s)", "py::scoped_ostream_redirect output;", "R\"pbdoc( )pbdoc\""]
CODE_MEMBERS = ["print", "run", "serialize", "svg", "insert"]


def c17_code_like_text(i: int, j: int, static: int) -> bool:
    """
    Documentation that LOOKS LIKE the code the generator itself emits (its lambda bodies, its format placeholders, its
    post-processing targets) is still embedded as the text it is: the binding of `Cls::<name>` carries exactly the given
    text, for ordinary members and for the members the generator post-processes (print, serialize, ipython display names).
    pre: 0 <= i < len(CODE_MEMBERS) and 0 <= j < len(CODE_TEXTS) and 0 <= static <= 1
    post: _
    """
    i, j, static = pick(i, 0, len(CODE_MEMBERS)), pick(j, 0, len(CODE_TEXTS)), pick(static, 0, 2)
    with concrete():
        from harness import readers
        name, doc = CODE_MEMBERS[i], CODE_TEXTS[j]
        member = ("static void %s(string s);" if static else "void %s(string s) const;") % name
        text = "namespace top { class Cls { Cls(); %s void other(int z) const; }; }" % member
        w = PybindWrapper(module_name="mod", top_module_namespaces=[''], ignore_classes=[''], module_template=pipe.PYBIND_TPL, xml_source="xmlsrc")
        w.xml_parser.extract_docstring = lambda folder, cls, meth, argnames: doc if meth == name else ""
        problems = []
        try:
            body = pipe.pybind_body(text, wrapper=w)
        except Exception as ex:
            body = ""
            problems.append("raised %r" % ex)

        def text_of(lit):
            by = c_decode(lit[1:-1]) if len(lit) >= 2 and lit[0] == lit[-1] == '"' else None
            return None if by is None else bytes(by).decode("utf-8", "replace")
        if body:
            defs = [d for e in readers.parse_pybind(body) for d in e.get("defs", []) if d.get("doc")]
            docs = [text_of(d["doc"]) for d in defs]
            if name == "serialize":
                pass                 # replaced by the pickling bindings (a static `serialize` gets no binding at all): nothing carries documentation
            elif doc not in docs:
                problems.append("no binding of %s carries the documentation %r; docstrings present: %r" % (name, doc, docs))
            if any(t not in (doc, "") for t in docs):
                problems.append("a binding carries a text that is not the documentation %r: %r" % (doc, [t for t in docs if t not in (doc, "")]))
        ok = not problems or _fail(text=text, doc=doc, problems=problems)
    reached({"name": CODE_MEMBERS[i], "doc": j, "static": static})
    return ok


def conds(tier):
    q = tier == "quick"
    t = (lambda x, y: x) if q else (lambda x, y: y)
    M = "harness.c17"
    return [
        xh.Cond(M, "c17_escape_any", t(200, 3000), examples=["text='a\"b'", "text='\\\\n'", "text='é'", "text='\\x80'", "text='\\x07b'", "text='\\n'"],
                bounds="all texts of length <= %d over all Unicode scalar values" % (2 if q else 3)),
        xh.Cond(M, "c17_escape_class", t(300, 1800), examples=["cls=0, cp=7, nxt=11", "cls=2, cp=160, nxt=10", "cls=6, cp=128512, nxt=22", "cls=1, cp=92, nxt=23"],
                bounds="7 code-point classes x symbolic code point in the class x %d following characters (hex digits, quote, backslash, ?, other)" % len(FOLLOW)),
        xh.Cond(M, "c17_long_text", t(240, 900), kind="shape-bounded", examples=["length=2, off=1, ch=0, mix=0", "length=4, off=0, ch=1, mix=1", "length=0, off=3, ch=2, mix=0", "length=3, off=2, ch=8, mix=1"],
                bounds="5 lengths (300 ... 66000 characters) x 4 offsets x 9 characters (DEL, control, quote, backslash, newline, 2- and 4-byte UTF-8, ?, digit) x run / alternating with a digit; adjacent literals decoded piecewise"),
        xh.Cond(M, "c17_overloads", t(300, 1800), examples=["shape=0, q=0, sym='id'", "shape=4, q=1, sym='id'", "shape=9, q=0, sym='zz'", "shape=12, q=0, sym='a'", "shape=13, q=2, sym='a'", "shape=14, q=1, sym='b'", "shape=15, q=0, sym='a'", "shape=16, q=2, sym='a'", "shape=16, q=3, sym='a'", "shape=15, q=1, sym='a'"],
                bounds="17 member-definition shapes (with per-parameter documentation; default values as text, as a cross-reference element, empty) x 12 queries x symbolic parameter name (len <= 3)"),
        xh.Cond(M, "c17_xml_folder", t(120, 600), kind="shape-bounded", examples=["kind=0, pos=0, target=0", "kind=1, pos=2, target=0", "kind=2, pos=3, target=2", "kind=3, pos=1, target=1"],
                bounds="real XML folder: 4 compound kinds x 4 positions in index.xml x 4 class-name forms, with decoy compounds"),
        xh.Cond(M, "c17_partial_xml", t(120, 600), kind="shape-bounded", examples=["shape=1", "shape=5"], bounds="6 partial-XML shapes"),
        xh.Cond(M, "c17_documented_member", t(200, 600), kind="shape-bounded", examples=["i=1, static=0, nargs=1", "i=4, static=0, nargs=0", "i=2, static=1, nargs=2", "i=0, static=0, nargs=2"],
                bounds="%d member names (ordinary, Python keywords, ipython display names, print, serialize, insert) x static x 0-2 parameters (one defaulted)" % len(DOC_METHODS)),
        xh.Cond(M, "c17_code_like_text", t(200, 600), kind="shape-bounded", examples=["i=0, j=0, static=0", "i=1, j=4, static=1", "i=2, j=1, static=0"],
                bounds="%d members (print, ordinary, serialize, ipython display name, insert) x static x %d texts made of the generator's own code words (lambda bodies, format placeholders, post-processing targets)" % (len(CODE_MEMBERS), len(CODE_TEXTS))),
        xh.Cond(M, "c17_nothing_else_changes", t(200, 900), kind="shape-bounded", examples=["n=2, k=1, role=0"], bounds="0-2 args x defaults x 3 roles"),
    ]
