// a part whose stem is a suffix of another part's stem
namespace gt {
class Lin { Lin(); void solve(double tol = 1e-9) const; };
}
