#include <lib/Main.h>
namespace gt {
class Main { Main(); void serialize() const; int run(int a = 3) const; };
namespace sub { class Inner { Inner(double x); }; }
double free_fn(const gt::Main& m);
}
class Glob { Glob(); };
namespace gt {
template<A = {int}, B = {double}> class Pair2 { Pair2(); void serialize() const; };
}
