#include <pybind11/pybind11.h>
{includes}
{boost_class_export}
{submodules}
{module_def} {{
    m_.doc() = "pybind11 wrapper of {module_name}";
{submodules_init}
{wrapped_namespace}
}}
