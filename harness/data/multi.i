namespace gt {
class Multi { Multi(); int count() const; };
}
