// a part whose stem ends in the stem of another part
namespace gt {
class NonLin { NonLin(); double err() const; };
}
