// a part whose stem is a prefix of another part's stem
namespace gt {
double partfn(double x);
}
