namespace gt {
class PartA { PartA(); void serializable() const; static gt::PartA Make(); };
enum Kind { K1, K2 };
}
