// second part
namespace gt {
virtual class PartB : gt::PartA { PartB(int n); double value; };
template<T = {double, gt::PartA}> T pick(const T& a);
}
