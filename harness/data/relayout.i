// constructed re-layout corpus: every declaration kind of the dialect, with the forms the bundled fixtures lack
#include <geo/Point.h>
class Fwd;
virtual class VFwd;
const int kAnswer = 42;
const double kGravity = -9.81;
const string kName = "unit";
double gScale = 1e-9;
int gPlain;
std::vector<double> gVec = std::vector<double>();
geo::Point gOrigin = geo::Point(0, 0);
enum Color { Red, Green, Blue };
enum class Shade { Dark, Light };
double ffree(double x);
void fdefaults(int a = 3, const string& s = "a b", double t = 1e-9, geo::Point p = geo::Point(1, 2));
pair<double, geo::Point> fpair(size_t n);
std::pair<int, string> fstdpair();
geo::Point* fptr(geo::Point@ raw, const geo::Point& cref, geo::Point& ref);
template<T = {double, geo::Point}>
T ftmpl(const T& a, std::vector<T> v);
template<T>
T fopen(T a);
typedef geo::Box<double> BoxD;
typedef geo::Pair<int, std::vector<double>> PairIV;
namespace geo {
class Point {
  Point();
  Point(double x, double y = 0.0);
  double x() const;
  void set(double v = -1);
  static geo::Point Origin();
  geo::Point operator+(const geo::Point& o) const;
  geo::Point operator-() const;
  double operator[](size_t i) const;
  geo::Point operator()(double s) const;
  __len__();
  __iter__();
  __contains__(size_t key);
  void serialize() const;
  double weight;
  const int fixed;
  int level = 3;
  string label = "none";
  enum Kind { A, B };
  template<U = {double, int}>
  void scaled(const U& u) const;
  template<U = {double, int}>
  Point(const U& u, int tag);
  template<U = {double}>
  static geo::Point From(const U& u);
  template<U>
  U as() const;
};
template<T, U = {int}>
virtual class Box : geo::Base<T> {
  Box(const T& t, U u = 0);
  This copy() const;
  This::Mode mode(const This::Mode& m = This::Mode::M1) const;
  T::Value value() const;
  enum Mode { M1, M2 };
  T item;
};
namespace deep { class Inner : geo::Point { Inner(); }; double k = 2; enum Mode { M1 }; typedef geo::Box<geo::Point, int> BoxPI; class Fwd2; }
}
void fnested(std::vector<std::pair<size_t, geo::Point>> a, std::map<string, std::vector<geo::Point>> b);
