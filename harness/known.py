"""Known-finding switches for harness pre-conditions.

`kf_open(id)` is True iff /verif/known_findings.json lists finding `id` with status "open".  Harnesses
conjoin `not (kf_open(id) and <family predicate>)` to their pre-condition so that the listed family is
excluded from the symbolic run (its witness is replayed separately) while every other violation of the
same property is still searched for.  With the entry absent or "fixed" nothing is excluded.
"""
import json
import os

_PATH = os.path.join(os.path.dirname(os.path.dirname(os.path.abspath(__file__))), "known_findings.json")
try:
    with open(_PATH) as _f:
        _OPEN = frozenset(e["id"] for e in json.load(_f).get("findings", []) if e.get("status", "open") == "open")
except FileNotFoundError:
    _OPEN = frozenset()


def kf_open(fid: str) -> bool:
    return fid in _OPEN
