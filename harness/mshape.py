"""MATLAB-side declaration shapes: decode small ints into class / function declarations, render them, run
the REAL MatlabWrapper, and read the generated toolbox back (call sites, switch cases, routines, files)."""
import re

from harness import pipe, readers

# ----------------------------------------------------------------- class shapes
CTOR_SHAPES = [[], [[]], [[("int", "a", None), ("double", "b", "1.5")]], [[], [("const ns::Other&", "o", None)]]]
METHOD_SHAPES = [
    [],
    [("int", "getIt", [], True)],
    [("void", "setIt", [("int", "a", None)], False), ("void", "setIt", [("double", "x", None), ("size_t", "n", "0")], False)],
    [("double", "alpha", [("ns::Other", "o", "ns::Other()")], True), ("ns::Other", "beta", [], True)],
]
EXTRA_SHAPES = [([], []), ([("ns::Other*", "Make", [("size_t", "n", "0")])], []), ([], [("int", "count")]),
                ([("This", "Create", [])], [("double", "budget_val"), ("ns::Other", "preset_other")])]      # names containing "get_" / "set_"
N_CLASS_CODES = 2 * 3 * 4 * 4 * 4


def decode_class(code, idx, prev=None):
    d = {}
    d["virtual"], code = code % 2, code // 2
    d["base"], code = code % 3, code // 3            # 0 none, 1 previous class in the file, 2 external class ext::Root
    d["ctors"] = CTOR_SHAPES[code % 4]; code //= 4
    d["methods"] = METHOD_SHAPES[code % 4]; code //= 4
    d["statics"], d["props"] = EXTRA_SHAPES[code % 4]
    d["name"] = "Cls%s" % "ABC"[idx]
    d["base_name"] = None
    if d["base"] == 1 and prev is not None:
        d["base_name"] = prev
    elif d["base"] == 2:
        d["base_name"] = "ext::Root"
    return d


def args_text(args):
    return ", ".join("%s %s%s" % (t, n, " = " + dv if dv is not None else "") for t, n, dv in args)


def render_class(d, serialize=False):
    parts = ["%s(%s);" % (d["name"], args_text(a)) for a in d["ctors"]]
    parts += ["%s %s(%s)%s;" % (r, n, args_text(a), " const" if c else "") for r, n, a, c in d["methods"]]
    if serialize:
        parts.append("void serialize() const;")
    parts += ["static %s %s(%s);" % (r, n, args_text(a)) for r, n, a in d["statics"]]
    parts += ["%s %s;" % (t, n) for t, n in d["props"]]
    return "%sclass %s%s { %s };" % ("virtual " if d["virtual"] else "", d["name"],
                                       (" : " + d["base_name"]) if d["base_name"] else "", " ".join(parts))


FUNC_SHAPES = [
    [],
    [("int", "fn", [("int", "a", None)])],
    [("int", "fn", [("int", "a", None)]), ("double", "fn", [("double", "x", None), ("ns::Other", "o", "ns::Other()")])],
    [("int", "fn", [("int", "a", None)]), ("void", "other", []), ("double", "fn", [("double", "x", None), ("double", "y", None)])],
]


def render_functions(fs):
    return " ".join("%s %s(%s);" % (r, n, args_text(a)) for r, n, a in fs)


PRELUDE = "namespace ns { class Other { Other(); }; template<C> class Cam { Cam(); }; }\nnamespace ext { virtual class Root { Root(); }; }\n"


def expand(args):
    """the k+1 arities n..n-k of a parameter list whose last k parameters have defaults"""
    out = [list(args)]
    cur = list(args)
    while cur and cur[-1][2] is not None:
        cur = cur[:-1]
        out.append(list(cur))
    return out


# ----------------------------------------------------------------- expectations: the roles a toolbox must dispatch
def expected_roles(classes, nss, funcs, boost):
    """ordered multiset of (class-or-None, role, member, arity) the property says must each own exactly one id"""
    roles = []
    for d in classes:
        c = d["name"]
        if d["virtual"]:
            roles.append((c, "upcast", None, None))
        roles.append((c, "collector", None, None))
        for a in d["ctors"]:
            for v in expand(a):
                roles.append((c, "constructor", None, len(v)))
        roles.append((c, "destructor", None, None))
        for r, n, a, _c in d["methods"]:
            for v in expand(a):
                roles.append((c, "method", n, len(v)))
        if d.get("serialize") and boost:
            roles.append((c, "serialize", None, None))
        for t, n in d["props"]:
            roles.append((c, "getter", n, None))
            roles.append((c, "setter", n, None))
        for r, n, a in d["statics"]:
            for v in expand(a):
                roles.append((c, "static", n, len(v)))
        if d.get("serialize") and boost:
            roles.append((c, "deserialize", None, None))
    for r, n, a in funcs:
        for v in expand(a):
            roles.append((None, "function", n, len(v)))
    return roles


# ----------------------------------------------------------------- reading the toolbox back
def classify_callsite(cs, text_lines):
    """role of one call site from the MATLAB code around it (independent of the id)"""
    line, func, f = cs["line"], cs["func"], cs["file"]
    base = f.rsplit("/", 1)[-1][:-2]
    if func is None:
        return None
    if func == "delete":
        return (base, "destructor", None, None)
    if func.startswith("get."):
        return (base, "getter", func[4:], None)
    if func.startswith("set."):
        return (base, "setter", func[4:], None)
    if func == "string_serialize":
        return (base, "serialize", None, None)
    if func == "string_deserialize":
        return (base, "deserialize", None, None)
    # arity: nearest preceding guard line
    arity = None
    for ln in range(cs["lineno"], max(-1, cs["lineno"] - 6), -1):
        m = re.search(r"(?:nargin|length\(varargin\)) == (\d+)", text_lines[ln])
        if m:
            arity = int(m.group(1))
            break
    if func == base and re.match(r"\s*function obj = ", _func_header(text_lines, cs["lineno"])):
        if re.match(r"my_ptr = \w+\(\d+, varargin\{2\}\);", line):
            return (base, "upcast", None, None)
        if re.match(r"(base_ptr = )?\w+\(\d+, my_ptr\);", line):
            return (base, "collector", None, None)
        return (base, "constructor", None, arity)
    hdr = _func_header(text_lines, cs["lineno"])
    if re.match(r"\s*function varargout = \w+\(this, varargin\)", hdr):
        return (base, "method", func, arity)
    if re.match(r"\s*function varargout = \w+\(varargin\)", hdr):
        if _is_function_file(text_lines):
            return (None, "function", func, arity)
        return (base, "static", func, arity)
    return None


MAT_CLASS = {"int": "numeric", "size_t": "numeric", "unsigned char": "numeric", "float": "double", "double": "double", "char": "char", "string": "char",
             "bool": "logical", "Vector": "double", "Matrix": "double", "gtsam::Vector": "double", "gtsam::Matrix": "double"}


def guard_classes(lines, lineno):
    """MATLAB classes demanded by the guard that protects a call site (None when the site has no argument guard)"""
    for ln in range(lineno, max(-1, lineno - 6), -1):
        if re.search(r"(?:nargin|length\(varargin\)) == \d+", lines[ln]):
            return re.findall(r"isa\(varargin\{\d+\},\s*'([^']+)'\)", lines[ln])
    return None


def routine_classes(body):
    """MATLAB classes of the values a generated routine unwraps from in[k], k in argument order (None = a type this reader does not know)"""
    out = []
    for m in re.finditer(r"unwrap(_shared_ptr|_enum)?<\s*([^>]*(?:<[^>]*>)?[^>]*?)\s*>\(in\[(\d+)\]", body):
        kind, ty, idx = m.group(1), m.group(2).strip(), int(m.group(3))
        tm = re.match(r"([\w:]+)<(.*)>$", ty)
        if kind and tm:
            # MATLAB class of a template instantiation: outer name + the last name component of each argument
            inner = [a.strip().split("::")[-1] for a in tm.group(2).split(",")]
            out.append((idx, None if any(a in MAT_CLASS for a in inner) else tm.group(1).replace("::", ".") + "".join(inner)))
        elif kind:
            out.append((idx, ty.replace("::", ".")))
        else:
            out.append((idx, MAT_CLASS.get(ty)))
    return [c for _i, c in sorted(out)]


def _func_header(lines, ln):
    for i in range(ln, -1, -1):
        if re.match(r"\s*function\s", lines[i]):
            return lines[i]
    return ""


def _is_function_file(lines):
    return bool(lines) and lines[0].startswith("function ")


def classify_routine(name, body, module_ns):
    """(class, role, member, arity, id) of a generated C++ routine from its name and body"""
    m = re.match(r"(\w+?)_(\d+)$", name)
    stem, rid = m.group(1), int(m.group(2))
    def arity_ca():
        mm = re.search(r'checkArguments\("[^"]*",nargout,nargin(-1)?,(\d+)\)', body)
        return int(mm.group(2)) if mm else None
    for role, key in (("collector", "_collectorInsertAndMakeBase"), ("upcast", "_upcastFromVoid"), ("constructor", "_constructor"),
                      ("destructor", "_deconstructor"), ("serialize", "_string_serialize"), ("deserialize", "_string_deserialize")):
        if stem.endswith(key):
            cls = stem[:-len(key)]
            ar = None
            if role == "constructor":
                ar = len(re.findall(r"= \*?unwrap\w*<", body))
            return (cls, role, None, ar, rid)
    mm = re.match(r"(\w+?)_get_(\w+)$", stem)
    if mm and "obj->" in body and "out[0]" in body:
        return (mm.group(1), "getter", mm.group(2), None, rid)
    mm = re.match(r"(\w+?)_set_(\w+)$", stem)
    if mm and re.search(r"obj->\w+ = ", body):
        return (mm.group(1), "setter", mm.group(2), None, rid)
    if 'unwrap_shared_ptr<' in body and "auto obj = " in body:
        mm = re.match(r"(\w+?)_(\w+)$", stem)
        called = re.search(r"obj->(\w+)", body)
        return (None, "method", called.group(1) if called else None, arity_ca(), rid, stem)
    ca = re.search(r'checkArguments\("([^"]*)",nargout,nargin,(\d+)\)', body)
    if ca and "." in ca.group(1):
        return (None, "static", ca.group(1).split(".")[-1], int(ca.group(2)), rid, stem)
    if ca:
        return (None, "function", ca.group(1), int(ca.group(2)), rid, stem)
    return (None, "?", None, None, rid, stem)


def run_toolbox(text, boost=False, ignore=("",), module="mod"):
    files, cpp, w = pipe.matlab(text, module_name=module, ignore=ignore, boost=boost)
    return files, cpp


def dispatch_tables(files, cpp, module="mod"):
    sites = readers.matlab_callsites(files, module)
    cases = readers.mex_cases(cpp)
    routines = readers.mex_routines(cpp)
    return sites, cases, routines


def check_dispatch(files, cpp, classes, nss, funcs, boost, module="mod"):
    """C05: ids contiguous from 0; call site -> case -> routine is a bijection; roles agree.  Returns problems."""
    problems = []
    sites, cases, routines = dispatch_tables(files, cpp, module)
    nsprefix = "".join(nss)
    routines = [(n, b) for n, b in routines if re.search(r"_\d+$", n)]
    site_ids = [s["id"] for s in sites]
    case_ids = [c for c, _ in cases]
    r_ids = [int(n.rsplit("_", 1)[1]) for n, _ in routines]
    n = len(case_ids)
    if sorted(case_ids) != list(range(n)):
        problems.append("case ids are not 0..n-1: %r" % sorted(case_ids))
    if sorted(site_ids) != sorted(case_ids):
        problems.append("call-site ids %r != case ids %r" % (sorted(site_ids), sorted(case_ids)))
    if sorted(r_ids) != sorted(case_ids) or len(set(n_ for n_, _ in routines)) != len(routines):
        problems.append("routine ids %r != case ids %r" % (sorted(r_ids), sorted(case_ids)))
    rnames = {n_: b for n_, b in routines}
    case_map = dict(cases)
    used = {}
    for cid, rn in cases:
        if rn not in rnames:
            problems.append("case %d calls undefined routine %s" % (cid, rn))
        used[rn] = used.get(rn, 0) + 1
        if not rn.endswith("_%d" % cid):
            problems.append("case %d runs routine %s (id suffix differs)" % (cid, rn))
    for rn, k in used.items():
        if k != 1:
            problems.append("routine %s reachable from %d cases" % (rn, k))
    # role agreement per call site
    got_roles = []
    for s in sites:
        lines = files[s["file"]].split("\n")
        role = classify_callsite(s, lines)
        if role is None:
            problems.append("unclassifiable call site %r in %s" % (s["line"], s["file"]))
            continue
        got_roles.append(role)
        rn = case_map.get(s["id"])
        if rn is None or rn not in rnames:
            continue
        rr = classify_routine(rn, rnames[rn], nsprefix)
        cls, kind, member, arity = role
        nsprefix = "".join(x[1:] for x in s["file"].split("/")[:-1] if x.startswith("+"))
        ok = rr[1] == kind
        if kind in ("collector", "upcast", "constructor", "destructor", "serialize", "deserialize", "getter", "setter"):
            want_cls = (nsprefix + cls) if kind != "upcast" else cls
            ok = ok and rr[0] == want_cls
            if kind == "constructor":
                ok = ok and rr[3] == arity
            if kind in ("getter", "setter"):
                ok = ok and rr[2] == member
        elif kind == "method":
            ok = ok and rr[2] == member and rr[3] == arity and rr[5] == "%s%s_%s" % (nsprefix, cls, member)
        elif kind == "static":
            ok = ok and rr[2] == member and rr[3] == arity and rr[5] == "%s%s_%s" % (nsprefix, cls, member)
        elif kind == "function":
            ok = ok and rr[2] == member and rr[3] == arity
        if not ok:
            problems.append("id %d: call site is %r but the dispatched routine %s is %r" % (s["id"], role, rn, rr[:4]))
        if kind in ("method", "static", "function", "constructor"):
            gc = guard_classes(lines, s["lineno"])
            rc = routine_classes(rnames[rn])
            if kind == "method":
                rc = rc[1:]                        # in[0] is the object
            if gc is not None and None not in rc and len(gc) == len(rc) and gc != rc and not (kind == "constructor" and not gc):
                problems.append("id %d: the call site guards for %r but routine %s unwraps %r" % (s["id"], gc, rn, rc))
    if classes is None:
        return problems                    # structural agreement only: the caller has no declaration list (accumulated toolbox)
    want = sorted(map(repr, expected_roles(classes, nss, funcs, boost)))
    got = sorted(map(repr, [r for r in got_roles if r[0] not in ("Other", "Root")]))
    if got != want:
        problems.append("roles with a call site %r != declared roles %r" % (got, want))
    return problems
