"""Concrete helpers shared by harness functions: run the real parser / instantiator / generators.

Everything here runs the REAL gtwrap code from /repo (editable install); nothing is re-implemented.
"""
import builtins
import io
import os
import sys

import gtwrap.interface_parser as parser
import gtwrap.template_instantiator as instantiator
from gtwrap.pybind_wrapper import PybindWrapper
import gtwrap.matlab_wrapper.wrapper as _mw
from gtwrap.matlab_wrapper import MatlabWrapper

from vlib import trace

sys.setrecursionlimit(20000)

IDENT_FIRST = "abcdefghijklmnopqrstuvwxyzABCDEFGHIJKLMNOPQRSTUVWXYZ_"
IDENT_REST = IDENT_FIRST + "0123456789"

# a template in the style of templates/pybind_wrapper.tpl.example, with every placeholder wrap_file supplies
PYBIND_TPL = ("#include <pybind11/pybind11.h>\n{includes}\n{boost_class_export}\n{submodules}\n"
              "{module_def} {{\n    m_.doc() = \"pybind11 wrapper of {module_name}\";\n"
              "{submodules_init}\n//BEGIN-WRAPPED\n{wrapped_namespace}\n//END-WRAPPED\n}}\n")

MATLAB_TPL_TEXT = "#include <gtwrap/matlab.h>\n#include <map>\n"


def is_ident(s: str, lo: int, hi: int) -> bool:
    """Identifier of the interface dialect, written so that CrossHair keeps `s` symbolic."""
    return lo <= len(s) <= hi and s[0] in IDENT_FIRST and all(c in IDENT_REST for c in s)


def parse(text: str):
    return parser.Module.parseString(text)


def instantiate(text: str):
    return instantiator.instantiate_namespace(parse(text))


def pybind(text: str, module_name="mod", top=("",), ignore=(), boost=False, xml="", submodules=None,
           wrapper=None):
    """Full pybind pipeline on interface text -> generated translation unit (str)."""
    w = wrapper or PybindWrapper(module_name=module_name, top_module_namespaces=list(top),
                                 use_boost_serialization=boost, ignore_classes=list(ignore),
                                 module_template=PYBIND_TPL, xml_source=xml)
    trace.ran_pipeline()
    return w.wrap_file(text, module_name=module_name, submodules=submodules)


def pybind_body(text: str, **kw) -> str:
    out = pybind(text, **kw)
    return out.split("//BEGIN-WRAPPED\n", 1)[1].split("\n//END-WRAPPED", 1)[0]


class _TplOpen:
    """`open` for gtwrap.matlab_wrapper.wrapper: supplies the git-ignored matlab_wrapper.tpl when absent."""

    def __init__(self, real=builtins.open):
        self.real = real

    def __call__(self, file, mode="r", *a, **kw):
        if str(file).endswith("matlab_wrapper.tpl") and "r" in mode and not os.path.exists(file):
            return io.StringIO(MATLAB_TPL_TEXT)
        return self.real(file, mode, *a, **kw)


def new_matlab_wrapper(module_name="mod", top=("",), ignore=("",), boost=False):
    had = "open" in _mw.__dict__
    old = _mw.__dict__.get("open")
    _mw.open = _TplOpen(old or builtins.open)
    try:
        return MatlabWrapper(module_name=module_name, top_module_namespace=list(top),
                             ignore_classes=list(ignore), use_boost_serialization=boost)
    finally:
        if had:
            _mw.open = old
        else:
            del _mw.open


def matlab(text: str, module_name="mod", ignore=("",), boost=False):
    """Full MATLAB pipeline without touching the disk.

    Returns (files, cpp) where files maps relative path -> content (as generate_content would write them)
    and cpp is the MEX source text.
    """
    w = new_matlab_wrapper(module_name=module_name, ignore=ignore, boost=boost)
    module = instantiate(text)
    w.wrap_namespace(module)
    w.generate_wrapper(module)
    trace.ran_pipeline()
    files = {}
    flatten_content(w.content, "", files)
    cpp = files.get(module_name + "_wrapper.cpp", "")
    return files, cpp, w


def flatten_content(cc_content, path, out, order=None):
    """Mirror of MatlabWrapper.generate_content's path assembly, into a dict (last write wins, like the disk)."""
    for c in cc_content:
        if isinstance(c, list):
            if len(c) == 0:
                continue
            folder = os.path.join(path, c[0][0])
            for sub in c:
                flatten_content(sub[1], folder, out, order)
        elif isinstance(c[1], list):
            folder = os.path.join(path, c[0])
            for sub in c[1]:
                p = os.path.join(folder, sub[0])
                out[p] = sub[1]
                if order is not None:
                    order.append(p)
        else:
            p = os.path.join(path, c[0])
            out[p] = c[1]
            if order is not None:
                order.append(p)
