"""Canonical projection of a parsed (or instantiated) module tree to plain nested tuples.

Reads attributes of the real AST nodes only; used to compare two parses (C12), a parse against a
descriptor (C01), and an instantiation against a reference (C08/C13)."""
import gtwrap.interface_parser as parser
import gtwrap.template_instantiator as ti


def p_typename(t):
    if isinstance(t, str):
        return ("name", t)
    if not isinstance(t, parser.Typename) and hasattr(t, "__getitem__"):
        t = t[0]                      # a pyparsing ParseResults wrapping the Typename
    return ("tn", tuple(t.namespaces), p_name(t.name), tuple(p_typename(i) for i in t.instantiations))


def p_name(n):
    return n if isinstance(n, str) else ("tn-as-name", p_typename(n))


def p_type(t):
    if t is None or t == "":
        return None
    if isinstance(t, parser.TemplatedType):
        return ("ttype", bool(t.is_const), tuple(t.typename.namespaces), p_name(t.typename.name),
                tuple(p_type(x) for x in t.template_params),
                "*" if t.is_shared_ptr else "@" if t.is_ptr else "&" if t.is_ref else "")
    if isinstance(t, parser.Type):
        return ("type", bool(t.is_const), p_typename(t.typename), bool(t.is_basic),
                "*" if t.is_shared_ptr else "@" if t.is_ptr else "&" if t.is_ref else "")
    if isinstance(t, parser.Typename):
        return p_typename(t)
    return ("?", repr(t))


def p_args(args):
    return tuple((p_type(a.ctype), a.name, None if a.default is None else str(a.default)) for a in args.list())


def p_template(t):
    if not t:
        return None
    return ("template", tuple(t.typenames), tuple(tuple(p_typename(i) for i in insts) for insts in t.instantiations))


def p_ret(r):
    return ("ret", p_type(r.type1), p_type(r.type2) if r.type2 else None)


def parent_name(x):
    p = getattr(x, "parent", "")
    return getattr(p, "name", p) if p != "" else ""


def p_decl(d):
    if isinstance(d, parser.Namespace):
        return ("namespace", d.name, parent_name(d), tuple(p_decl(c) for c in d.content))
    if isinstance(d, parser.Class):
        return ("class", d.name, parent_name(d), p_template(d.template), bool(d.is_virtual),
                p_type(d.parent_class) if d.parent_class else None,
                tuple(("ctor", c.name, p_template(c.template), p_args(c.args), parent_name(c)) for c in d.ctors),
                tuple(("method", m.name, p_template(m.template), p_ret(m.return_type), p_args(m.args), bool(m.is_const), parent_name(m))
                      for m in d.methods),
                tuple(("static", m.name, p_template(m.template), p_ret(m.return_type), p_args(m.args), parent_name(m))
                      for m in d.static_methods),
                tuple(("dunder", m.name, p_args(m.args)) for m in d.dunder_methods),
                tuple(("prop", p_type(v.ctype), v.name, None if v.default is None else str(v.default), parent_name(v)) for v in d.properties),
                tuple(("op", o.name, o.operator, p_ret(o.return_type), p_args(o.args), bool(o.is_const), bool(o.is_unary)) for o in d.operators),
                tuple(p_decl(e) for e in d.enums))
    if isinstance(d, parser.GlobalFunction):
        return ("function", d.name, parent_name(d), p_template(d.template), p_ret(d.return_type), p_args(d.args))
    if isinstance(d, parser.Enum):
        return ("enum", d.name, tuple(e.name for e in d.enumerators))
    if isinstance(d, parser.Variable):
        return ("variable", p_type(d.ctype), d.name, None if d.default is None else str(d.default), parent_name(d))
    if isinstance(d, parser.TypedefTemplateInstantiation):
        return ("typedef", p_typename(d.typename), d.new_name, parent_name(d))
    if isinstance(d, parser.Include):
        return ("include", str(d.header))
    if isinstance(d, parser.ForwardDeclaration):
        return ("forward", p_typename(d.typename), p_typename(d.parent_type) if d.parent_type else None,
                bool(d.is_virtual), parent_name(d))
    return ("?", type(d).__name__, repr(d))


def project(module):
    return p_decl(module)
