"""Readers of GENERATED text (concrete strings): pybind11 translation units and MATLAB toolboxes.

These never look at gtwrap's data structures; they recover, from the emitted text alone, the facts the
properties talk about (which bindings exist, what each forwards to, which ids are dispatched where).
"""
import re

OPEN, CLOSE = "([{", ")]}"


def split_top(s, sep=",", angle=False):
    """split on `sep` at bracket depth 0, outside string literals; `angle` also tracks <>"""
    out, depth, cur, i, n = [], 0, "", 0, len(s)
    while i < n:
        ch = s[i]
        if ch == '"' or ch == "'":
            j = i + 1
            while j < n and s[j] != ch:
                j += 2 if s[j] == "\\" else 1
            cur += s[i:j + 1]
            i = j + 1
            continue
        if ch in OPEN or (angle and ch == "<"):
            depth += 1
        elif ch in CLOSE or (angle and ch == ">" and not s[i - 1:i] == "-"):
            depth -= 1
        if depth == 0 and s.startswith(sep, i) and ch == sep[0]:
            out.append(cur)
            cur = ""
            i += len(sep)
            continue
        cur += ch
        i += 1
    out.append(cur)
    return out


def match_close(s, i):
    """index of the bracket closing the one at s[i] (string literals skipped)"""
    depth, n = 0, len(s)
    while i < n:
        ch = s[i]
        if ch == '"' or ch == "'":
            j = i + 1
            while j < n and s[j] != ch:
                j += 2 if s[j] == "\\" else 1
            i = j + 1
            continue
        if ch in OPEN:
            depth += 1
        elif ch in CLOSE:
            depth -= 1
            if depth == 0:
                return i
        i += 1
    return -1


def balanced(s):
    """(), [], {} and quotes balance"""
    stack, i, n = [], 0, len(s)
    while i < n:
        ch = s[i]
        if ch == '"':
            j = i + 1
            while j < n and s[j] != '"':
                j += 2 if s[j] == "\\" else 1
            if j >= n:
                return False
            i = j + 1
            continue
        if ch in OPEN:
            stack.append(ch)
        elif ch in CLOSE:
            if not stack or OPEN.index(stack.pop()) != CLOSE.index(ch):
                return False
        i += 1
    return not stack


def statements(body):
    """top-level statements of the wrapped-namespace block"""
    return [x.strip() for x in split_top(body, ";") if x.strip()]


def chain(stmt, start):
    """[(name, args-text)] for the `.name(args)` calls chained from position `start`"""
    out, i, n = [], start, len(stmt)
    while i < n:
        m = re.compile(r"\s*\.(\w+)\(").match(stmt, i)
        if not m:
            break
        j = match_close(stmt, m.end() - 1)
        out.append((m.group(1), stmt[m.end():j]))
        i = j + 1
    return out, stmt[i:].strip()


def parse_lambda(text):
    """`[](params){body}` -> (params [(type, name)], body)"""
    m = re.match(r"\s*\[\]\(", text)
    if not m:
        return None
    j = match_close(text, m.end() - 1)
    params_txt = text[m.end():j]
    k = text.index("{", j)
    e = match_close(text, k)
    body = text[k + 1:e]
    params = []
    for p in split_top(params_txt, ",", angle=True):
        p = p.strip()
        if not p:
            continue
        mm = re.match(r"(.*?)\s*(\w+)$", p, re.S)
        params.append((mm.group(1).strip(), mm.group(2)))
    return params, body, text[e + 1:]


def parse_pyargs(parts):
    """['py::arg("a")', 'py::arg("b") = 3', '"doc"'] -> ([(name, default)], doc)"""
    args, doc = [], None
    for p in parts:
        p = p.strip()
        m = re.match(r'py::arg\("([^"]*)"\)(?:\s*=\s*(.*))?$', p, re.S)
        if m:
            args.append((m.group(1), m.group(2)))
        elif p.startswith('"'):
            doc = p
        elif p:
            args.append(("?", p))
    return args, doc


def parse_def(kind, argtext):
    """one `.def(...)` / `.def_static(...)` / ... call -> dict"""
    parts = split_top(argtext, ",", angle=True)
    d = {"kind": kind, "raw": argtext}
    first = parts[0].strip()
    if first.startswith("py::init<"):
        j = first.rindex(">")
        d["kind"] = "init"
        d["types"] = [x.strip() for x in split_top(first[len("py::init<"):j], ",", angle=True) if x.strip()]
        d["pyargs"], d["doc"] = parse_pyargs(parts[1:])
        return d
    if first.startswith("py::pickle"):
        d["kind"] = "pickle"
        return d
    if first.startswith('"'):
        d["name"] = first[1:-1]
        rest = ",".join(parts[1:]).strip()
        lam = parse_lambda(rest)
        if lam:
            params, body, tail = lam
            d["params"], d["body"] = params, body.strip()
            d["pyargs"], d["doc"] = parse_pyargs(split_top(tail.lstrip(", "), ",", angle=True))
            mm = re.match(r"(return\s+)?(.*?)\((.*)\);$", d["body"], re.S)
            if mm:
                d["returns"] = bool(mm.group(1))
                d["callee"] = mm.group(2).strip()
                d["call_args"] = [x.strip() for x in split_top(mm.group(3), ",") if x.strip()]
        else:
            d["target"] = rest
        return d
    d["expr"] = first           # operator forms: py::self + py::self
    return d


def parse_pybind(body):
    """wrapped-namespace block -> list of entities in order of appearance"""
    ents = []
    for st in statements(body):
        m = re.match(r"pybind11::module (\w+) = (\w+)\.def_submodule\(\"(\w+)\", \"(.*)\"\)$", st)
        if m:
            ents.append({"ent": "submodule", "var": m.group(1), "parent": m.group(2), "name": m.group(3), "doc": m.group(4), "stmt": st})
            continue
        m = re.match(r"py::class_<", st)
        if m:
            j = _angle_close(st, len("py::class_"))
            targs = [x.strip() for x in split_top(st[len("py::class_<"):j], ",", angle=True)]
            rest = st[j + 1:].lstrip()
            inst = None
            mm = re.match(r"(\w+)\(", rest)
            if mm:                                   # `py::class_<...> name(mod, "Name")`  (class with enums)
                inst = mm.group(1)
                k = match_close(rest, mm.end() - 1)
                ctor = rest[mm.end():k]
                ents.append({"ent": "class", "targs": targs, "module": split_top(ctor, ",")[0].strip(),
                             "name": split_top(ctor, ",")[1].strip().strip('"'), "instance": inst, "defs": [], "stmt": st})
                continue
            k = match_close(rest, 0)
            ctor = rest[1:k]
            defs, tail = chain(rest, k + 1)
            ents.append({"ent": "class", "targs": targs, "module": split_top(ctor, ",")[0].strip(),
                         "name": split_top(ctor, ",")[1].strip().strip('"'), "instance": None,
                         "defs": [parse_def(kk, a) for kk, a in defs], "tail": tail, "stmt": st})
            continue
        m = re.match(r"py::enum_<(.*?)>\((\w+), \"(\w+)\", py::arithmetic\(\)\)", st, re.S)
        if m:
            vals, tail = chain(st, m.end())
            ents.append({"ent": "enum", "cpp": m.group(1), "module": m.group(2), "name": m.group(3),
                         "values": [tuple(x.strip() for x in split_top(a, ",")) for k, a in vals if k == "value"], "tail": tail, "stmt": st})
            continue
        m = re.match(r"(\w+)\.attr\(\"(\w+)\"\) = (.*)$", st, re.S)
        if m:
            ents.append({"ent": "attr", "module": m.group(1), "name": m.group(2), "value": m.group(3), "stmt": st})
            continue
        m = re.match(r"(\w+)((?:\s*\.\w+\().*)$", st, re.S)
        if m:
            defs, tail = chain(st, len(m.group(1)))
            if defs:
                ents.append({"ent": "chain", "target": m.group(1), "defs": [parse_def(kk, a) for kk, a in defs], "tail": tail, "stmt": st})
                continue
        ents.append({"ent": "other", "stmt": st})
    # attach chains on class instances (classes with enums) to their class
    byinst = {e["instance"]: e for e in ents if e["ent"] == "class" and e.get("instance")}
    for e in ents:
        if e["ent"] == "chain" and e["target"] in byinst:
            byinst[e["target"]]["defs"] += e["defs"]
            e["ent"] = "class-chain"
    return ents


def _angle_close(s, i):
    depth = 0
    while i < len(s):
        if s[i] == "<":
            depth += 1
        elif s[i] == ">":
            depth -= 1
            if depth == 0:
                return i
        i += 1
    return -1


# ------------------------------------------------------------------------------------ MATLAB
def matlab_callsites(files, module="mod"):
    """every `<module>_wrapper(<id>, ...)` call site in every .m file: (file, id, context line, enclosing function)"""
    out = []
    pat = re.compile(r"%s_wrapper\((\d+)" % re.escape(module))
    for path, text in files.items():
        if not path.endswith(".m"):
            continue
        func = None
        lines = text.split("\n")
        for ln, line in enumerate(lines):
            fm = re.match(r"\s*function\s+(?:.*=\s*)?([\w.]+)\s*\(", line)
            if fm:
                func = fm.group(1)
            for m in pat.finditer(line):
                out.append({"file": path, "id": int(m.group(1)), "line": line.strip(), "func": func, "lineno": ln,
                            "prev": lines[ln - 1].strip() if ln else ""})
    return out


def mex_cases(cpp):
    """switch cases of mexFunction: id -> routine name"""
    out = []
    for m in re.finditer(r"case (\d+):\s*\n\s*(\w+)\(nargout, out, nargin-1, in\+1\);\s*\n\s*break;", cpp):
        out.append((int(m.group(1)), m.group(2)))
    return out


def mex_routines(cpp):
    """collector routines: name -> body text (in order)"""
    out = []
    for m in re.finditer(r"^void (\w+)\(int nargout, mxArray \*out\[\], int nargin, const mxArray \*in\[\]\)\s*\{", cpp, re.M):
        j = match_close(cpp, m.end() - 1)
        out.append((m.group(1), cpp[m.end():j]))
    return out
