"""Independent recogniser of the interface dialect (written from DOCS.md, shares no code with gtwrap or with
the grammar encoder).  Works on token lists; full context-free search (sets of end positions), so it has no
ordered-choice / longest-match commitment of its own.  Used only as the second replay oracle of C01(a):
"is this token string a well-formed interface file?"."""

BASIC = {"void", "bool", "unsigned char", "char", "int", "size_t", "double", "float"}
# (`pair` is not reserved: outside the head of a return type it is an ordinary name — `const std::pair<int, double>& p`)
RESERVED = BASIC | {"virtual", "class", "template", "const", "static", "operator", "enum", "enum class",
                    "enum struct", "typedef", "namespace", "#include", "std::"}
OPS = {"+", "-", "*", "/", "%", "^", "&", "|", "+=", "-=", "*=", "/=", "%=", "^=", "&=", "|=", "<<", "<<=", ">>",
       ">>=", "==", "!=", "<", ">", "<=", ">=", "()", "[]"}
DEFAULT_ATOMS = {"3", "1.5", '"s"', "A"}


RELAXED = [False]


def is_ident(t):
    if t in RESERVED and not (RELAXED[0] and t not in ("std::", "#include", "unsigned char", "enum class", "enum struct")):
        return False
    if t.isdigit():
        return True
    return (t[0].isalpha() or t[0] == "_") and all(c.isalnum() or c == "_" for c in t)


class R:
    def __init__(self, toks):
        self.t = toks
        self.n = len(toks)
        self.memo = {}

    # combinators over sets of positions
    def lit(self, i, s):
        return {i + 1} if i < self.n and self.t[i] == s else set()

    def ident(self, i):
        return {i + 1} if i < self.n and is_ident(self.t[i]) else set()

    def seq(self, starts, fn):
        out = set()
        for i in starts:
            out |= fn(i)
        return out

    def opt(self, i, fn):
        return {i} | fn(i)

    def star(self, i, fn):
        seen, todo = {i}, [i]
        while todo:
            j = todo.pop()
            for k in fn(j):
                if k not in seen:
                    seen.add(k)
                    todo.append(k)
        return seen

    def listof(self, i, fn, sep=","):
        out = set()
        cur = fn(i)
        seen = set()
        while cur:
            out |= cur
            nxt = set()
            for j in cur:
                for k in self.lit(j, sep):
                    nxt |= fn(k)
            nxt -= seen
            seen |= nxt
            cur = nxt
        return out

    def m(self, name, i):
        key = (name, i)
        if key not in self.memo:
            self.memo[key] = set()          # no left recursion in this grammar
            self.memo[key] = getattr(self, name)(i)
        return self.memo[key]

    # grammar
    def typename(self, i):
        return self.listof(i, self.ident, "::")

    def suffix(self, i):
        return {i} | self.lit(i, "*") | self.lit(i, "@") | self.lit(i, "&")

    def type_(self, i):
        out = set()
        for j in self.opt(i, lambda x: self.lit(x, "const")):
            base = set()
            if j < self.n and self.t[j] in BASIC:
                base.add(j + 1)
            base |= self.m("typename", j)
            for k in base:
                out |= self.suffix(k)
        return out

    def ttype(self, i):
        out = set()
        for j in self.opt(i, lambda x: self.lit(x, "const")):
            for k in self.m("typename", j):
                for a in self.lit(k, "<"):
                    for b in self.listof(a, lambda x: self.m("anytype", x)):
                        for c in self.lit(b, ">"):
                            out |= self.suffix(c)
        return out

    def anytype(self, i):
        return self.m("type_", i) | self.m("ttype", i)

    def rettype(self, i):
        out = set(self.m("anytype", i))
        for j in self.opt(i, lambda x: self.lit(x, "std::")):
            for k in self.lit(j, "pair"):
                for a in self.lit(k, "<"):
                    for b in self.m("type_", a):
                        for c in self.lit(b, ","):
                            for d in self.m("type_", c):
                                out |= self.lit(d, ">")
        return out

    def default(self, i):
        out = set()
        for j in self.lit(i, "="):
            if not RELAXED[0]:
                if j < self.n and self.t[j] in DEFAULT_ATOMS:
                    out.add(j + 1)
                continue
            # the tool copies a default expression verbatim: any non-empty run of tokens up to a top-level , ; or
            # closing bracket, with () [] {} <> balanced inside
            depth, k = [], j
            pairs = {")": "(", "]": "[", "}": "{", ">": "<"}
            while k < self.n:
                t = self.t[k]
                if t in "([{<" and len(t) == 1:
                    depth.append(t)
                elif t in pairs:
                    if not depth:
                        break
                    if depth[-1] != pairs[t]:
                        break
                    depth.pop()
                elif t in (",", ";") and not depth:
                    break
                k += 1
                if not depth:
                    out.add(k)
        return out

    def arg(self, i):
        out = set()
        for j in self.m("anytype", i):
            for k in self.ident(j):
                out |= self.opt(k, self.default)
        return out

    def args(self, i):
        return {i} | self.listof(i, lambda x: self.m("arg", x))

    def parens(self, i):
        out = set()
        for j in self.lit(i, "("):
            for k in self.m("args", j):
                out |= self.lit(k, ")")
        return out

    def tparam(self, i):
        out = set()
        for j in self.ident(i):
            out.add(j)
            for k in self.lit(j, "="):
                for a in self.lit(k, "{"):
                    for b in self.listof(a, lambda x: self.m("ttype", x) | self.m("typename", x)):
                        out |= self.lit(b, "}")
        return out

    def template(self, i):
        out = set()
        for j in self.lit(i, "template"):
            for k in self.lit(j, "<"):
                for a in self.listof(k, lambda x: self.m("tparam", x)):
                    out |= self.lit(a, ">")
        return out

    def opt_template(self, i):
        return {i} | self.m("template", i)

    def function(self, i, allow_const=False, static=False, ctor=False):
        out = set()
        for j in self.opt_template(i):
            js = self.lit(j, "static") if static else {j}
            for j2 in js:
                rs = {j2} if ctor else self.m("rettype", j2)
                for k in rs:
                    for a in self.ident(k):
                        for b in self.m("parens", a):
                            cs = self.opt(b, lambda x: self.lit(x, "const")) if allow_const else {b}
                            for c in cs:
                                out |= self.lit(c, ";")
        return out

    def variable(self, i):
        out = set()
        for j in self.m("anytype", i):
            for k in self.ident(j):
                for a in self.opt(k, self.default):
                    out |= self.lit(a, ";")
        return out

    def enum(self, i):
        out = set()
        heads = self.lit(i, "enum") | self.lit(i, "enum class") | self.lit(i, "enum struct")
        for j in heads:
            for k in self.ident(j):
                for a in self.lit(k, "{"):
                    for b in self.listof(a, self.ident):
                        for c in self.lit(b, "}"):
                            out |= self.lit(c, ";")
        return out

    def operator(self, i):
        out = set()
        for j in self.m("rettype", i):
            for k in self.lit(j, "operator"):
                if k < self.n and self.t[k] in OPS:
                    for b in self.m("parens", k + 1):
                        for c in self.lit(b, "const"):
                            out |= self.lit(c, ";")
        return out

    def dunder(self, i):
        out = set()
        for j in self.lit(i, "__"):
            if j < self.n and self.t[j].isalpha() and (RELAXED[0] or self.t[j] not in RESERVED):
                for k in self.lit(j + 1, "__"):
                    for b in self.m("parens", k):
                        out |= self.lit(b, ";")
        return out

    def member(self, i):
        return (self.m("dunder", i) | self.function(i, ctor=True) | self.function(i, allow_const=True)
                | self.function(i, static=True) | self.m("variable", i) | self.m("operator", i) | self.m("enum", i))

    def class_(self, i):
        out = set()
        for j in self.opt_template(i):
            for k in self.opt(j, lambda x: self.lit(x, "virtual")):
                for a in self.lit(k, "class"):
                    for b in self.ident(a):
                        bs = {b}
                        for c in self.lit(b, ":"):
                            bs |= self.m("ttype", c) | self.m("typename", c)
                        for d in bs:
                            for e in self.lit(d, "{"):
                                for f in self.star(e, lambda x: self.m("member", x)):
                                    for g in self.lit(f, "}"):
                                        out |= self.lit(g, ";")
        return out

    def forward(self, i):
        out = set()
        for k in self.opt(i, lambda x: self.lit(x, "virtual")):
            for a in self.lit(k, "class"):
                for b in self.m("typename", a):
                    bs = {b}
                    for c in self.lit(b, ":"):
                        bs |= self.m("typename", c)
                    for d in bs:
                        out |= self.lit(d, ";")
        return out

    def include(self, i):
        out = set()
        for j in self.lit(i, "#include"):
            for k in self.lit(j, "<"):
                if not RELAXED[0]:
                    if k < self.n and self.t[k] not in (">",):
                        out |= self.lit(k + 1, ">")
                    continue
                m = k                      # the header is copied verbatim: any tokens up to the first >
                while m < self.n and not self.t[m].startswith(">"):
                    m += 1
                out |= self.lit(m, ">")
        return out

    def typedef(self, i):
        out = set()
        for j in self.lit(i, "typedef"):
            for k in self.m("ttype", j):
                for a in self.ident(k):
                    out |= self.lit(a, ";")
        return out

    def namespace(self, i):
        out = set()
        for j in self.lit(i, "namespace"):
            for k in self.ident(j):
                for a in self.lit(k, "{"):
                    for b in self.star(a, lambda x: self.m("decl", x)):
                        out |= self.lit(b, "}")
        return out

    def decl(self, i):
        return (self.m("forward", i) | self.m("include", i) | self.m("class_", i) | self.m("typedef", i)
                | self.function(i) | self.m("enum", i) | self.m("variable", i) | self.m("namespace", i))

    def module(self):
        return self.n in self.star(0, lambda x: self.m("decl", x))


def well_formed(tokens, relaxed=False):
    """relaxed: reserved words may be used as identifiers (what the tool's scannerless grammar allows)"""
    RELAXED[0] = relaxed
    try:
        return R(list(tokens)).module()
    finally:
        RELAXED[0] = False
