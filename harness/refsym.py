"""The reference dialect grammar of harness/refgrammar.py once more, as DATA, with a z3 interpreter.

`refgrammar.R` is a hand-written context-free recogniser over concrete token lists (written from DOCS.md).  To let
the solver compare the LIVE grammar with it for *every* token string up to N, the same grammar is written here as
a combinator term and interpreted symbolically: positions are concrete (0..N), tokens are the z3 stream variables
of Engine G, the result of matching a term at position i is a map  end position -> z3 condition.  No ordered
choice, no longest match: the reference is the context-free language.

The two descriptions are kept honest by `validate()`: solver-diversified streams from both sides of the symbolic
relation are run through the concrete recogniser `refgrammar.well_formed`; any disagreement is a harness error.

Identifier rule = the relaxed one (reserved words may serve as identifiers: a deliberate non-finding, DESIGN section 5);
default values = one atom token (the stated token-level domain); an include header = one token.
"""
import z3

from harness import refgrammar as rg

FALSE, TRUE = z3.BoolVal(False), z3.BoolVal(True)


def Or_(xs):
    xs = [x for x in xs if not z3.is_false(x)]
    if not xs:
        return FALSE
    if any(z3.is_true(x) for x in xs):
        return TRUE
    return z3.Or(xs) if len(xs) > 1 else xs[0]


def And_(xs):
    xs = [x for x in xs if not z3.is_true(x)]
    if any(z3.is_false(x) for x in xs):
        return FALSE
    if not xs:
        return TRUE
    return z3.And(xs) if len(xs) > 1 else xs[0]


# ------------------------------------------------------------------ the grammar as a term
def L(s): return ("lit", s)
def S(*xs): return ("seq", list(xs))
def A(*xs): return ("alt", list(xs))
def O(x): return ("opt", x)
def Z(x): return ("star", x)
def LS(x, sep=","): return ("list", x, sep)
def Rf(n): return ("ref", n)


IDENT, BASIC, OP, ATOM, HDR, ALPHA = ("cls", "ident"), ("cls", "basic"), ("cls", "op"), ("cls", "atom"), ("cls", "hdr"), ("cls", "alpha")
SUFFIX = O(A(L("*"), L("@"), L("&")))


def _function(static=False, ctor=False, allow_const=False):
    parts = [O(Rf("template"))]
    if static:
        parts.append(L("static"))
    if not ctor:
        parts.append(Rf("rettype"))
    parts += [IDENT, Rf("parens")]
    if allow_const:
        parts.append(O(L("const")))
    parts.append(L(";"))
    return S(*parts)


RULES = {
    "typename": LS(IDENT, "::"),
    "type_": S(O(L("const")), A(BASIC, Rf("typename")), SUFFIX),
    "ttype": S(O(L("const")), Rf("typename"), L("<"), LS(Rf("anytype")), L(">"), SUFFIX),
    "anytype": A(Rf("type_"), Rf("ttype")),
    "rettype": A(Rf("anytype"), S(O(L("std::")), L("pair"), L("<"), Rf("type_"), L(","), Rf("type_"), L(">"))),
    "default": S(L("="), ATOM),
    "arg": S(Rf("anytype"), IDENT, O(Rf("default"))),
    "parens": S(L("("), O(LS(Rf("arg"))), L(")")),
    "tparam": S(IDENT, O(S(L("="), L("{"), LS(A(Rf("ttype"), Rf("typename"))), L("}")))),
    "template": S(L("template"), L("<"), LS(Rf("tparam")), L(">")),
    "function": _function(),
    "ctor": _function(ctor=True),
    "method": _function(allow_const=True),
    "static": _function(static=True),
    "variable": S(Rf("anytype"), IDENT, O(Rf("default")), L(";")),
    "enum": S(A(L("enum"), L("enum class"), L("enum struct")), IDENT, L("{"), LS(IDENT), L("}"), L(";")),
    "operator": S(Rf("rettype"), L("operator"), OP, Rf("parens"), L("const"), L(";")),
    "dunder": S(L("__"), ALPHA, L("__"), Rf("parens"), L(";")),
    "member": A(Rf("dunder"), Rf("ctor"), Rf("method"), Rf("static"), Rf("variable"), Rf("operator"), Rf("enum")),
    "class_": S(O(Rf("template")), O(L("virtual")), L("class"), IDENT, O(S(L(":"), A(Rf("ttype"), Rf("typename")))),
                L("{"), Z(Rf("member")), L("}"), L(";")),
    "forward": S(O(L("virtual")), L("class"), Rf("typename"), O(S(L(":"), Rf("typename"))), L(";")),
    "include": S(L("#include"), L("<"), HDR, L(">")),
    "typedef": S(L("typedef"), Rf("ttype"), IDENT, L(";")),
    "namespace": S(L("namespace"), IDENT, L("{"), Z(Rf("decl")), L("}")),
    "decl": A(Rf("forward"), Rf("include"), Rf("class_"), Rf("typedef"), Rf("function"), Rf("enum"), Rf("variable"), Rf("namespace")),
    "module": Z(Rf("decl")),
}


def classes_of(V, relaxed=True):
    """vocabulary indices per token class, decided by the concrete recogniser's own predicates"""
    rg.RELAXED[0] = relaxed
    try:
        ident = [k for k, v in enumerate(V) if rg.is_ident(v)]
    finally:
        rg.RELAXED[0] = False
    return {
        "ident": ident,
        "basic": [k for k, v in enumerate(V) if v in rg.BASIC],
        "op": [k for k, v in enumerate(V) if v in rg.OPS],
        "atom": [k for k, v in enumerate(V) if v in rg.DEFAULT_ATOMS],
        "hdr": [k for k, v in enumerate(V) if v != ">"],
        "alpha": [k for k, v in enumerate(V) if v.isalpha() and (relaxed or v not in rg.RESERVED)],
    }


class Sym:
    """match relation of RULES over the symbolic stream (tok, length) with vocabulary V"""

    def __init__(self, V, N, tok, length, relaxed=True):
        self.V, self.N, self.tok, self.length = V, N, tok, length
        self.cls = classes_of(V, relaxed)
        self.memo = {}
        self.nodes = 0

    def one(self, i, idxs):
        if i >= self.N or not idxs:
            return {}
        return {i + 1: z3.And(self.length > i, Or_([self.tok[i] == k for k in idxs]))}

    def m(self, t, i):
        kind = t[0]
        if kind == "ref":
            key = (t[1], i)
            if key not in self.memo:
                self.memo[key] = {}                     # no left recursion
                self.memo[key] = self.m(RULES[t[1]], i)
                self.nodes += 1
            return self.memo[key]
        if kind == "lit":
            return self.one(i, [self.V.index(t[1])] if t[1] in self.V else [])
        if kind == "cls":
            return self.one(i, self.cls[t[1]])
        if kind == "opt":
            out = {i: TRUE}
            for j, c in self.m(t[1], i).items():
                out[j] = Or_([out.get(j, FALSE), c])
            return out
        if kind == "alt":
            out = {}
            for x in t[1]:
                for j, c in self.m(x, i).items():
                    out.setdefault(j, []).append(c)
            return {j: Or_(cs) for j, cs in out.items()}
        if kind == "seq":
            cur = {i: TRUE}
            for x in t[1]:
                nxt = {}
                for j, c in cur.items():
                    for k, c2 in self.m(x, j).items():
                        nxt.setdefault(k, []).append(And_([c, c2]))
                cur = {k: Or_(cs) for k, cs in nxt.items()}
                if not cur:
                    break
            return cur
        if kind == "star":
            reach = {i: TRUE}
            for p in range(i, self.N + 1):
                if p not in reach:
                    continue
                for q, c in self.m(t[1], p).items():
                    if q > p:
                        reach[q] = Or_([reach.get(q, FALSE), And_([reach[p], c])])
            return reach
        if kind == "list":
            # x (sep x)*
            item, sep = t[1], ("lit", t[2])
            starts = {i: TRUE}                           # positions where an item may start
            ends = {}
            for p in range(i, self.N + 1):
                if p not in starts:
                    continue
                for q, c in self.m(item, p).items():
                    if q <= p:
                        continue
                    cond = And_([starts[p], c])
                    ends[q] = Or_([ends.get(q, FALSE), cond])
                    for r, c3 in self.m(sep, q).items():
                        starts[r] = Or_([starts.get(r, FALSE), And_([cond, c3])])
            return ends
        raise ValueError(kind)

    def accepts(self):
        res = self.m(Rf("module"), 0)
        return Or_([z3.And(c, self.length == j) for j, c in res.items()])


def concrete(tokens, relaxed=True):
    """the concrete recogniser, under the same rule set as the symbolic one (relaxed or strict identifiers, atom defaults)"""
    toks = list(tokens)
    if not relaxed:
        return rg.well_formed(toks, relaxed=False)
    # strict defaults + relaxed identifiers: refgrammar's relaxed mode also relaxes defaults and headers, so test the
    # strict-default condition here and let the recogniser do the rest
    for k, t in enumerate(toks):
        if t == "=" and k + 1 < len(toks) and toks[k + 1] != "{" and toks[k + 1] not in rg.DEFAULT_ATOMS:
            return False
        if t == "=" and k + 1 < len(toks) and toks[k + 1] != "{" and not (k + 2 < len(toks) and toks[k + 2] in (",", ";", ")")):
            return False
        if t == "=" and k + 1 >= len(toks):
            return False
    for k, t in enumerate(toks):
        if t == "#include" and not (k + 3 < len(toks) and toks[k + 1] == "<" and toks[k + 3] == ">"):
            return False
    return rg.well_formed(toks, relaxed=True)
