"""Declaration descriptors, their rendering to interface text, and what the property statements say the
generated code must contain for them.  Independent of gtwrap (plain data + string building)."""

# ---------------------------------------------------------------- types
# ty = (const, namespaces, name, args, suffix)   suffix in '', '*' (shared ptr), '@' (raw ptr), '&'


def T(name, *args, ns=(), const=False, suf=""):
    return (const, tuple(ns), name, tuple(args), suf)


def itext(ty):
    """interface-file spelling"""
    const, nss, name, args, suf = ty
    core = "::".join(tuple(nss) + (name,))
    if args:
        core += "<" + ", ".join(itext(a) for a in args) + ">"
    return ("const " if const else "") + core + suf


def cpp(ty):
    """C++ spelling the wrappers must use (DOCS.md: * = std::shared_ptr, @ = raw pointer, & = reference)"""
    const, nss, name, args, suf = ty
    core = "::".join(tuple(nss) + (name,))
    if args:
        core += "<" + ", ".join(cpp(a) for a in args) + ">"
    if suf == "*":
        core = "std::shared_ptr<" + core + ">"
    elif suf == "@":
        core += "*"
    elif suf == "&":
        core += "&"
    return ("const " if const else "") + core


INT, DOUBLE, BOOL, SIZE_T, CHAR, UCHAR, VOID = (T(n) for n in ("int", "double", "bool", "size_t", "char", "unsigned char", "void"))
STRING = T("string")
VECTOR, MATRIX = T("Vector"), T("Matrix")

# (type, default expression or None) pool for arguments; class `ns::Other` and enum `ns::Color` are declared by the harness
ARG_POOL = [
    (INT, "3"),
    (DOUBLE, "1.5"),
    (T("string", const=True, suf="&"), '"hi,  there   (two  spaces)"'),
    (T("Other", ns=("ns",)), "ns::Other()"),
    (T("Other", ns=("ns",), const=True, suf="&"), 'ns::Other(1,\n                      "two  blanks\tand a tab")'),      # a default written over two lines
    (T("Other", ns=("ns",), suf="*"), "nullptr"),
    (T("Other", ns=("ns",), suf="@"), "nullptr"),
    (T("vector", T("Other", ns=("ns",)), ns=("std",)), "{1, 2}"),
    (VECTOR, "Vector()"),
    (T("Color", ns=("ns",)), "ns::Color::Red"),
    (SIZE_T, "0"),
    (BOOL, "true"),
    (MATRIX, "Matrix()"),
    (T("Other", ns=("ns",), suf="&"), None),
    (UCHAR, "'c'"),
    (T("vector", T("Other", ns=("ns",)), ns=("std",), suf="*"), "nullptr"),
    (T("map", T("string"), T("Other", ns=("ns",), suf="*"), ns=("std",), const=True, suf="@"), None),
    (T("Box", T("vector", DOUBLE, ns=("std",)), ns=("ns",), const=True, suf="&"), None),
]
RET_POOL = [
    ("void",), ("one", INT), ("one", DOUBLE), ("one", T("Other", ns=("ns",))), ("one", T("Other", ns=("ns",), suf="*")),
    ("pair", INT, T("Other", ns=("ns",))), ("one", VECTOR), ("one", T("Color", ns=("ns",))), ("one", STRING),
    ("pair", VECTOR, MATRIX), ("one", T("vector", DOUBLE, ns=("std",))), ("one", BOOL),
]
ARG_NAMES = ["a", "b", "c", "d", "e"]


def ret_itext(r):
    if r[0] == "void":
        return "void"
    if r[0] == "pair":
        return "pair<%s, %s>" % (itext(r[1]), itext(r[2]))
    return itext(r[1])


def ret_cpp(r):
    if r[0] == "void":
        return "void"
    if r[0] == "pair":
        return "std::pair<%s,%s>" % (cpp(r[1]), cpp(r[2]))
    return cpp(r[1])


def mk_args(type_idxs, ndefaults):
    """[(ty, name, default)] — the last `ndefaults` arguments carry their pool default"""
    n = len(type_idxs)
    out = []
    for i, ti in enumerate(type_idxs):
        ty, dflt = ARG_POOL[ti % len(ARG_POOL)]
        has = i >= n - ndefaults and dflt is not None
        out.append((ty, ARG_NAMES[i], dflt if has else None))
    # defaults must be trailing: drop a default that is followed by a non-default
    seen_nodefault = False
    fixed = []
    for ty, nm, d in reversed(out):
        if d is None:
            seen_nodefault = True
        fixed.append((ty, nm, None if seen_nodefault else d))
    return list(reversed(fixed))


def args_itext(args):
    return ", ".join("%s %s%s" % (itext(t), n, (" = " + d) if d is not None else "") for t, n, d in args)


PRELUDE = ("namespace ns {\n"
           "class Other { Other(); };\n"
           "enum Color { Red, Green, Blue };\n"
           "}\n")
