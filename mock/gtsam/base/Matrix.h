#pragma once
namespace gtsam {
struct Matrix { double* d_; long m_, n_; Matrix():d_(0),m_(0),n_(0){} Matrix(long m,long n); long rows() const {return m_;} long cols() const {return n_;} double& operator()(long i,long j){return d_[i+j*m_];} const double& operator()(long i,long j) const {return d_[i+j*m_];} };
}
