#pragma once
#include <memory>
#include <cstddef>
namespace gtsam {
struct Vector { double* d_; long n_; Vector():d_(0),n_(0){} explicit Vector(long n); long size() const {return n_;} double& operator()(long i){return d_[i];} const double& operator()(long i) const {return d_[i];} };
struct Point2 : Vector { Point2(){} Point2(const Vector& v):Vector(v){} };
struct Point3 : Vector { Point3(){} Point3(const Vector& v):Vector(v){} };
}
