#pragma once
