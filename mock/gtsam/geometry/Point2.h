#pragma once
