#pragma once
