#pragma once
#include <stddef.h>
#include <stdint.h>
typedef struct mxArray_tag mxArray;
typedef size_t mwSize;
typedef int32_t int32_T;
typedef enum { mxUNKNOWN_CLASS=0, mxCELL_CLASS, mxSTRUCT_CLASS, mxLOGICAL_CLASS, mxCHAR_CLASS, mxVOID_CLASS, mxDOUBLE_CLASS, mxSINGLE_CLASS, mxINT8_CLASS, mxUINT8_CLASS, mxINT16_CLASS, mxUINT16_CLASS, mxINT32_CLASS, mxUINT32_CLASS, mxINT64_CLASS, mxUINT64_CLASS } mxClassID;
typedef enum { mxREAL=0, mxCOMPLEX } mxComplexity;
mxArray* mxCreateNumericArray(mwSize ndim, const mwSize* dims, mxClassID c, mxComplexity f);
mxArray* mxCreateNumericMatrix(mwSize m, mwSize n, mxClassID c, mxComplexity f);
mxArray* mxCreateDoubleMatrix(mwSize m, mwSize n, mxComplexity f);
mxArray* mxCreateDoubleScalar(double v);
mxArray* mxCreateString(const char*);
mxArray* mxCreateStructMatrix(mwSize, mwSize, int, const char**);
mxArray* mxDuplicateArray(const mxArray*);
void mxDestroyArray(mxArray*);
void* mxGetData(const mxArray*);
double* mxGetPr(const mxArray*);
double mxGetScalar(const mxArray*);
size_t mxGetM(const mxArray*);
size_t mxGetN(const mxArray*);
mxClassID mxGetClassID(const mxArray*);
bool mxIsDouble(const mxArray*);
bool mxIsComplex(const mxArray*);
char* mxArrayToString(const mxArray*);
int mxGetString(const mxArray*, char*, mwSize);
void mxFree(void*);
mxArray* mxGetProperty(const mxArray*, mwSize, const char*);
mxArray* mxGetField(const mxArray*, mwSize, const char*);
int mxAddField(mxArray*, const char*);
void mxSetFieldByNumber(mxArray*, mwSize, int, mxArray*);
int mexCallMATLAB(int, mxArray**, int, mxArray**, const char*);
void mexErrMsgIdAndTxt(const char*, const char*, ...) __attribute__((noreturn));
void mexErrMsgTxt(const char*) __attribute__((noreturn));
int mexPrintf(const char*, ...);
const mxArray* mexGetVariablePtr(const char*, const char*);
mxArray* mexGetVariable(const char*, const char*);
int mexPutVariable(const char*, const char*, const mxArray*);
int mexAtExit(void(*)(void));
