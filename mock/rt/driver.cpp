// Native replay driver for Engine L counterexamples: the real matlab.h against a tiny MEX runtime.
#include <cstdint>
#include <cstdio>
#include <cstdlib>
#include <cstring>
#include <vector>
#include MATLAB_H_PATH

struct mxArray_tag { mxClassID cls; size_t M, N; bool cplx; void* data; };
static size_t elsize(mxClassID c){ switch(c){case mxDOUBLE_CLASS: case mxINT64_CLASS: case mxUINT64_CLASS: return 8; case mxSINGLE_CLASS: case mxINT32_CLASS: case mxUINT32_CLASS: return 4; case mxINT16_CLASS: case mxUINT16_CLASS: case mxCHAR_CLASS: return 2; default: return 1;} }
static mxArray* mk(mxClassID c, size_t m, size_t n, size_t alloc_elems){ mxArray* a=new mxArray_tag; a->cls=c;a->M=m;a->N=n;a->cplx=false; size_t b=(alloc_elems?alloc_elems:1)*8; a->data=calloc(b,1); return a; }
extern "C" {
mxArray* mxCreateNumericArray(mwSize nd, const mwSize* d, mxClassID c, mxComplexity){ size_t m=d[0], n= nd>1? d[1]:1; return mk(c,m,n,m*n); }
mxArray* mxCreateNumericMatrix(mwSize m, mwSize n, mxClassID c, mxComplexity){ return mk(c,m,n,m*n); }
mxArray* mxCreateDoubleMatrix(mwSize m, mwSize n, mxComplexity){ return mk(mxDOUBLE_CLASS,m,n,m*n); }
mxArray* mxCreateDoubleScalar(double v){ mxArray* a=mk(mxDOUBLE_CLASS,1,1,1); *(double*)a->data=v; return a; }
mxArray* mxCreateString(const char*){ return mk(mxCHAR_CLASS,1,1,1); }
mxArray* mxCreateStructMatrix(mwSize, mwSize, int, const char**){ return mk(mxSTRUCT_CLASS,1,1,1); }
mxArray* mxDuplicateArray(const mxArray* a){ return mk(a->cls,a->M,a->N,1); }
void mxDestroyArray(mxArray*){}
void* mxGetData(const mxArray* a){ return a->data; }
double* mxGetPr(const mxArray* a){ return (double*)a->data; }
double mxGetScalar(const mxArray* a){ void* p=a->data; switch(a->cls){ case mxDOUBLE_CLASS: return *(double*)p; case mxSINGLE_CLASS: return *(float*)p; case mxLOGICAL_CLASS: return *(unsigned char*)p!=0; case mxCHAR_CLASS: return *(uint16_t*)p; case mxINT8_CLASS: return *(int8_t*)p; case mxUINT8_CLASS: return *(uint8_t*)p; case mxINT16_CLASS: return *(int16_t*)p; case mxUINT16_CLASS: return *(uint16_t*)p; case mxINT32_CLASS: return *(int32_t*)p; case mxUINT32_CLASS: return *(uint32_t*)p; case mxINT64_CLASS: return (double)*(int64_t*)p; case mxUINT64_CLASS: return (double)*(uint64_t*)p; default: return *(double*)p; } }
size_t mxGetM(const mxArray* a){ return a->M; }
size_t mxGetN(const mxArray* a){ return a->N; }
mxClassID mxGetClassID(const mxArray* a){ return a->cls; }
bool mxIsDouble(const mxArray* a){ return a->cls==mxDOUBLE_CLASS; }
bool mxIsComplex(const mxArray* a){ return a->cplx; }
char* mxArrayToString(const mxArray*){ return 0; }
int mxGetString(const mxArray*, char*, mwSize){ return 1; }
void mxFree(void*){}
mxArray* mxGetProperty(const mxArray*, mwSize, const char*){ return 0; }
mxArray* mxGetField(const mxArray*, mwSize, const char*){ return 0; }
int mxAddField(mxArray*, const char*){ return 0; }
void mxSetFieldByNumber(mxArray*, mwSize, int, mxArray*){}
int mexCallMATLAB(int, mxArray**, int, mxArray**, const char*){ return 0; }
void mexErrMsgIdAndTxt(const char*, const char* m, ...){ printf("ERROR\n"); exit(0); }
void mexErrMsgTxt(const char*){ printf("ERROR\n"); exit(0); }
int mexPrintf(const char*, ...){ return 0; }
const mxArray* mexGetVariablePtr(const char*, const char*){ return 0; }
mxArray* mexGetVariable(const char*, const char*){ return 0; }
int mexPutVariable(const char*, const char*, const mxArray*){ return 0; }
int mexAtExit(void(*)(void)){ return 0; }
}
namespace gtsam { Vector::Vector(long n):d_((double*)calloc(n>0?n:1,8)),n_(n){} Matrix::Matrix(long m,long n):d_((double*)calloc((m*n)>0?m*n:1,8)),m_(m),n_(n){} }

static uint64_t hx(const char* s){ return strtoull(s,0,16); }
static double dbl(const char* s){ uint64_t b=hx(s); double d; memcpy(&d,&b,8); return d; }
static void pd(double d){ uint64_t b; memcpy(&b,&d,8); printf("%016llx ", (unsigned long long)b); }

template<class T> static void scalar_rt(uint64_t bits){ T v; memcpy(&v,&bits,sizeof(T)); mxArray* a=wrap<T>(v); T r=unwrap<T>(a); uint64_t o=0; memcpy(&o,&r,sizeof(T)); printf("OK %016llx\n",(unsigned long long)o); }
template<class T> static void guard(int cls, uint64_t M, uint64_t N, uint64_t bits){ mxArray* a=mk((mxClassID)cls,M,N,1); memcpy(a->data,&bits,8); T r=unwrap<T>(a); uint64_t o=0; memcpy(&o,&r,sizeof(T)); printf("OK %016llx\n",(unsigned long long)o); }

int main(int argc, char** argv){
  std::string mode=argv[1];
  if(mode=="scalar"||mode=="guard"){
    std::string t=argv[2];
    if(mode=="scalar"){ uint64_t b=hx(argv[3]);
      if(t=="int") scalar_rt<int>(b); else if(t=="size_t") scalar_rt<size_t>(b); else if(t=="char") scalar_rt<char>(b);
      else if(t=="uchar") scalar_rt<unsigned char>(b); else if(t=="bool") scalar_rt<bool>(b); else if(t=="double") scalar_rt<double>(b);
    } else { int c=atoi(argv[3]); uint64_t M=hx(argv[4]),N=hx(argv[5]),b=hx(argv[6]);
      if(t=="int") guard<int>(c,M,N,b); else if(t=="size_t") guard<size_t>(c,M,N,b); else if(t=="char") guard<char>(c,M,N,b);
      else if(t=="uchar") guard<unsigned char>(c,M,N,b); else if(t=="bool") guard<bool>(c,M,N,b); else if(t=="double") guard<double>(c,M,N,b);
    }
    return 0;
  }
  if(mode=="vector"||mode=="point2"||mode=="point3"){ long n=atol(argv[2]); gtsam::Vector v(n); for(long i=0;i<n;i++) v(i)=dbl(argv[3+i]);
    mxArray* a = mode=="vector"? wrap<gtsam::Vector>(v) : mode=="point2"? wrap<gtsam::Point2>(gtsam::Point2(v)) : wrap<gtsam::Point3>(gtsam::Point3(v));
    printf("WRAP %zu %zu %d ", a->M, a->N, (int)a->cls); for(long i=0;i<n;i++) pd(((double*)a->data)[i]); printf("\n");
    gtsam::Vector r = mode=="vector"? unwrap<gtsam::Vector>(a) : mode=="point2"? (gtsam::Vector)unwrap<gtsam::Point2>(a) : (gtsam::Vector)unwrap<gtsam::Point3>(a);
    printf("OK %ld ", r.size()); for(long i=0;i<r.size()&&i<64;i++) pd(r(i)); printf("\n"); return 0; }
  if(mode=="matrix"){ long m=atol(argv[2]), n=atol(argv[3]); gtsam::Matrix A(m,n); for(long k=0;k<m*n;k++) A.d_[k]=dbl(argv[4+k]);
    mxArray* a=wrap<gtsam::Matrix>(A); printf("WRAP %zu %zu %d ", a->M,a->N,(int)a->cls); for(long k=0;k<m*n;k++) pd(((double*)a->data)[k]); printf("\n");
    gtsam::Matrix R=unwrap<gtsam::Matrix>(a); printf("OK %ld %ld ", R.rows(), R.cols()); for(long k=0;k<R.rows()*R.cols()&&k<64;k++) pd(R.d_[k]); printf("\n"); return 0; }
  if(mode=="vguard"||mode=="p2guard"||mode=="p3guard"||mode=="mguard"){ int c=atoi(argv[2]); uint64_t M=hx(argv[3]),N=hx(argv[4]); mxArray* a=mk((mxClassID)c,M,N,(M<64&&N<64)?M*N:1);
    if(mode=="vguard"){ gtsam::Vector r=unwrap<gtsam::Vector>(a); printf("OK %ld\n", r.size()); }
    else if(mode=="p2guard"){ gtsam::Vector r=unwrap<gtsam::Point2>(a); printf("OK %ld\n", r.size()); }
    else if(mode=="p3guard"){ gtsam::Vector r=unwrap<gtsam::Point3>(a); printf("OK %ld\n", r.size()); }
    else { gtsam::Matrix r=unwrap<gtsam::Matrix>(a); printf("OK %ld %ld\n", r.rows(), r.cols()); }
    return 0; }
  return 2;
}
