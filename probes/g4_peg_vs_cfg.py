"""Prototype: live pyparsing grammar -> bounded token-level PEG relation in z3."""
import sys, time
import pyparsing as pp
import z3
import gtwrap.interface_parser as parser

N = int(sys.argv[1]) if len(sys.argv) > 1 else 8
MUT = sys.argv[2] if len(sys.argv) > 2 else ""

V = ["class", "virtual", "namespace", "template", "typedef", "enum", "static", "const", "#include",
     "void", "int", "double", "unsigned char", "pair", "std::", "operator", "This",
     "A", "b", "T", "x", "ns", "3", "::", "<", ">", "(", ")", "{", "}", ":", ";", ",", "=", "*", "@", "&",
     "+", "==", "()", "[]", "__", "a.h", '"s"', "'c'", "-", "["  , "]"]
END = len(V)

root = parser.Module.rule
if MUT == "noend":
    root = root.exprs[0]

def kids(e):
    if hasattr(e, 'exprs'): return list(e.exprs)
    if getattr(e, 'expr', None) is not None: return [e.expr]
    return []

leaf_cache = {}
def leaf_table(L):
    k = id(L)
    if k not in leaf_cache:
        full = []
        for idx, v in enumerate(V):
            try:
                end, _ = L._parse(v, 0, doActions=False)
                if end == len(v):
                    full.append(idx)
            except pp.ParseBaseException:
                pass
        leaf_cache[k] = full
    return leaf_cache[k]

tok = [z3.Int(f"t{k}") for k in range(N)]
length = z3.Int("len")
def tok_at(k):
    return tok[k] if k < N else z3.IntVal(END)

memo = {}
MODE = ["peg"]
RESERVED = set()
FALSE = z3.BoolVal(False); TRUE = z3.BoolVal(True)
def Or_(xs):
    xs = [x for x in xs if not z3.is_false(x)]
    if not xs: return FALSE
    if any(z3.is_true(x) for x in xs): return TRUE
    return z3.Or(xs) if len(xs) > 1 else xs[0]
def And_(xs):
    xs = [x for x in xs if not z3.is_true(x)]
    if any(z3.is_false(x) for x in xs): return FALSE
    if not xs: return TRUE
    return z3.And(xs) if len(xs) > 1 else xs[0]
def Not_(x):
    if z3.is_true(x): return FALSE
    if z3.is_false(x): return TRUE
    return z3.Not(x)

nfresh = [0]
defs = []
def name_it(x):
    """Introduce a definition variable to keep the DAG shared."""
    if z3.is_true(x) or z3.is_false(x) or z3.is_const(x): return x
    nfresh[0] += 1
    b = z3.Bool(f"d{nfresh[0]}")
    defs.append(b == x)
    return b

def M(e, i):
    """dict j -> Bool : e matches tokens [i, j)"""
    key = (id(e), i, MODE[0])
    if key in memo: return memo[key]
    memo[key] = None  # left-recursion guard
    r = M_(e, i)
    r = {j: name_it(b) for j, b in r.items() if not z3.is_false(b)}
    memo[key] = r
    return r

def any_(r):
    return Or_(list(r.values()))

def seq(rs_first, rest_fn):
    out = {}
    for j, b in rs_first.items():
        for k, c in rest_fn(j).items():
            out.setdefault(k, []).append(And_([b, c]))
    return {k: Or_(v) for k, v in out.items()}

def M_(e, i):
    t = type(e).__name__
    if isinstance(e, pp.StringEnd):
        return {i: (length == i)} if i <= N else {}
    if isinstance(e, pp.Empty):
        return {i: TRUE}
    if isinstance(e, pp.Token):
        if i >= N: return {}
        full = leaf_table(e)
        if MODE[0] == "cfg" and isinstance(e, pp.Word):
            full = [v for v in full if v not in RESERVED]
        if not full: return {}
        return {i + 1: And_([length > i, Or_([tok[i] == v for v in full])])}
    if isinstance(e, pp.And):
        cur = {i: TRUE}
        for c in e.exprs:
            cur = seq(cur, lambda j, c=c: M(c, j))
            if not cur: break
        return cur
    if MODE[0] == "cfg" and isinstance(e, (pp.Or, pp.MatchFirst)):
        out = {}
        for c in e.exprs:
            for j, b in M(c, i).items():
                out.setdefault(j, []).append(b)
        return {j: Or_(v) for j, v in out.items()}
    if MODE[0] == "cfg" and isinstance(e, pp.Opt):
        out = dict(M(e.expr, i)); out[i] = TRUE
        return out
    if isinstance(e, pp.Or):
        alts = [M(c, i) for c in e.exprs]
        out = {}
        js = sorted(set(j for a in alts for j in a))
        for j in js:
            here = Or_([a[j] for a in alts if j in a])
            longer = Or_([a[j2] for a in alts for j2 in a if j2 > j])
            out[j] = And_([here, Not_(longer)])
        return out
    if isinstance(e, pp.MatchFirst):
        out = {}
        prev_fail = TRUE
        for c in e.exprs:
            a = M(c, i)
            for j, b in a.items():
                out.setdefault(j, []).append(And_([prev_fail, b]))
            prev_fail = name_it(And_([prev_fail, Not_(any_(a))]))
        return {j: Or_(v) for j, v in out.items()}
    if isinstance(e, pp.Opt):
        a = M(e.expr, i)
        out = dict(a)
        none = Not_(any_(a))
        out[i] = Or_([out.get(i, FALSE), none])
        return out
    if isinstance(e, (pp.ZeroOrMore, pp.OneOrMore)):
        return star(e, e.expr, i, isinstance(e, pp.OneOrMore))
    if isinstance(e, pp.DelimitedList):
        # content + ZeroOrMore(delim + content)
        content, delim = e.content, e.raw_delim
        delim = pp.Suppress(delim) if isinstance(delim, str) else delim
        key = ("dl", id(e))
        if key not in memo:
            memo[key] = (delim + content)
        pair = memo[key]
        first = M(content, i)
        return seq(first, lambda j: star(("dlstar", id(e)), pair, j, False))
    if isinstance(e, pp.NotAny):
        a = M(e.expr, i)
        return {i: Not_(any_(a))}
    if isinstance(e, (pp.Forward, pp.Suppress, pp.Group, pp.Combine, pp.Located)) or hasattr(e, 'expr'):
        return M(e.expr, i)
    raise NotImplementedError(t)

star_memo = {}
MODE = ["peg"]
RESERVED = set()
def star(owner, inner, i, at_least_one):
    key = (owner if isinstance(owner, tuple) else id(owner), i, at_least_one, MODE[0])
    if key in star_memo: return star_memo[key]
    a = M(inner, i)
    out = {}
    if not at_least_one:
        out[i] = [TRUE if MODE[0] == "cfg" else Not_(any_(a))]
    for k, b in a.items():
        if k == i: continue
        for j, c in star(owner, inner, k, False).items():
            out.setdefault(j, []).append(And_([b, c]))
    r = {j: name_it(Or_(v)) for j, v in out.items()}
    star_memo[key] = r
    return r


sys.setrecursionlimit(100000)
# reserved spellings: those matched fully by some Keyword / identifier-shaped Literal
seen = {}
def walk(e):
    if id(e) in seen: return
    seen[id(e)] = e
    for k in kids(e): walk(k)
walk(root)
for e in seen.values():
    if isinstance(e, (pp.Keyword, pp.Literal)) and not isinstance(e, pp.Word):
        for idx in leaf_table(e):
            if V[idx][0].isalpha() or V[idx][0] in "_#":
                RESERVED.add(idx)
print("reserved:", [V[i] for i in sorted(RESERVED)])
if MUT == "mf":
    # mutate: Type ^ TemplatedType -> MatchFirst in Variable rule
    for e in seen.values():
        if isinstance(e, pp.Or) and len(e.exprs) == 2 and "TemplatedType" in str(type(e.exprs[1])) + str(e.exprs[1]):
            pass
t0 = time.time()
MODE[0] = "peg"; peg = M(root, 0)
MODE[0] = "cfg"; cfg = M(root, 0)
print("encoded in %.1fs, defs=%d" % (time.time() - t0, len(defs)))
s = z3.Solver(); s.add(defs)
for k in range(N): s.add(tok[k] >= 0, tok[k] < END)
s.add(length >= 0, length <= N)
pegacc = Or_([z3.And(b, length == j) for j, b in peg.items()])
cfgacc = Or_([z3.And(b, length == j) for j, b in cfg.items()])
def show(m):
    L = m[length].as_long()
    return " ".join(V[m.eval(tok[k], model_completion=True).as_long()] for k in range(L))
for nm, q in (("cfg&!peg", z3.And(cfgacc, z3.Not(pegacc))), ("peg&!cfg", z3.And(pegacc, z3.Not(cfgacc)))):
    s.push(); s.add(q); t0 = time.time(); r = s.check(); print(nm, r, "%.1fs" % (time.time()-t0))
    if str(r) == "sat":
        text = show(s.model()); print("   ", text)
        try: print("    real:", parser.Module.parseString(text))
        except Exception as ex: print("    real REJECTS:", type(ex).__name__, str(ex)[:100])
    s.pop()
