"""Prototype 2: token-level PEG relation with separator states (layout), from the live grammar."""
import sys, time, itertools
import pyparsing as pp
import z3
import gtwrap.interface_parser as parser

N = int(sys.argv[1]) if len(sys.argv) > 1 else 6
sys.setrecursionlimit(100000)
root = parser.Module.rule

def kids(e):
    if hasattr(e, 'exprs'): return list(e.exprs)
    if getattr(e, 'expr', None) is not None: return [e.expr]
    return []
nodes = {}
def walk(e):
    if id(e) in nodes: return
    nodes[id(e)] = e
    for k in kids(e): walk(k)
walk(root)

# vocabulary harvested from the grammar + exemplars
V = []
for e in nodes.values():
    if isinstance(e, (pp.Keyword, pp.Literal)) and getattr(e, 'match', None):
        if e.match not in V: V.append(e.match)
for x in ["A", "b", "T", "ns", "This", "std", "3", "a.h", '"s"', "[", "]", "1.5"]:
    if x not in V: V.append(x)
V = [v for v in V if v not in ("/*", "//")]
COMMENT = "/*c*/"
END = len(V)
print("V =", V)

def leaf_full(L):
    out = []
    for idx, v in enumerate(V):
        try:
            end, _ = L._parse(v, 0, doActions=False)
            if end == len(v): out.append(idx)
        except pp.ParseBaseException:
            pass
    return out
leaf_cache = {}

IDC = set("abcdefghijklmnopqrstuvwxyzABCDEFGHIJKLMNOPQRSTUVWXYZ0123456789_$")
PUNCT2 = set()
for v in V:
    if len(v) >= 2 and not (set(v) & IDC):
        PUNCT2.add(v)
def glue_ok(a, b):
    if a[-1] in IDC and b[0] in IDC: return False
    if a[-1] in '"\'' or b[0] in '"\'': return True
    j = a[-1] + b[0]
    if j in ("/*", "//", "*/"): return False
    for p in PUNCT2:
        # would munch across the junction
        for cut in range(1, len(p)):
            if a.endswith(p[:cut]) and b.startswith(p[cut:]): return False
    if "." in a or "." in b: return not (a[-1] in IDC | {"."} and b[0] in IDC | {"."})
    return True

tok = [z3.Int(f"t{k}") for k in range(N)]
length = z3.Int("len")
FALSE, TRUE = z3.BoolVal(False), z3.BoolVal(True)
def Or_(xs):
    xs = [x for x in xs if not z3.is_false(x)]
    if not xs: return FALSE
    if any(z3.is_true(x) for x in xs): return TRUE
    return z3.Or(xs) if len(xs) > 1 else xs[0]
def And_(xs):
    xs = [x for x in xs if not z3.is_true(x)]
    if any(z3.is_false(x) for x in xs): return FALSE
    if not xs: return TRUE
    return z3.And(xs) if len(xs) > 1 else xs[0]
def Not_(x):
    if z3.is_true(x): return FALSE
    if z3.is_false(x): return TRUE
    return z3.Not(x)

class Enc:
    """One encoding = one separator vector (symbolic) over the shared token vector."""
    def __init__(self, tag):
        self.tag = tag
        self.sep = [z3.Int(f"{tag}_s{k}") for k in range(N + 1)]
        self.memo, self.smemo, self.defs, self.n = {}, {}, [], 0
    def name_it(self, x):
        if z3.is_true(x) or z3.is_false(x) or z3.is_const(x): return x
        self.n += 1
        b = z3.Bool(f"{self.tag}_d{self.n}")
        self.defs.append(b == x)
        return b
    @staticmethod
    def pre(e, r):
        if e.ignoreExprs:
            r = {2: 1, 3: 1}.get(r, r)
        if e.skipWhitespace:
            r = {1: 0, 2: 3}.get(r, r)
        return r
    def after_token(self, k):
        """cursors after consuming token k: boundary k+1 with its initial separator state"""
        return {(k + 1, s): (self.sep[k + 1] == s) for s in (0, 1, 2)}
    def M(self, e, c):
        key = (id(e), c)
        if key in self.memo:
            if self.memo[key] is None: raise RuntimeError("left recursion")
            return self.memo[key]
        self.memo[key] = None
        k, r = c
        r1 = self.pre(e, r)
        res = self.impl(e, (k, r1))
        res = {c2: self.name_it(b) for c2, b in res.items() if not z3.is_false(b)}
        self.memo[key] = res
        return res
    def seq(self, first, rest_fn):
        out = {}
        for c1, b in first.items():
            for c2, cnd in rest_fn(c1).items():
                out.setdefault(c2, []).append(And_([b, cnd]))
        return {c2: Or_(v) for c2, v in out.items()}
    def impl(self, e, c):
        k, r = c
        if isinstance(e, pp.StringEnd):
            return {c: (length == k)} if r == 0 else {}
        if isinstance(e, pp.Empty):
            return {c: TRUE}
        if isinstance(e, pp.CharsNotIn):
            # consumes the remaining separator and whole tokens free of notChars, greedily (min 1 char)
            bad = set(e.notChars)
            clean = [i for i, v in enumerate(V) if not (set(v) & bad)]
            dirty0 = [i for i, v in enumerate(V) if v[0] in bad]
            stops_at_space = bool(bad & set(" \n\t"))
            out = {}
            if stops_at_space:
                # cannot cross separators: at most the current token, only when no separator is pending
                if r != 0 or k >= N: return {}
                hit = And_([length > k, Or_([tok[k] == v for v in clean])])
                # must stop at next separator or dirty token; consuming further glued clean tokens is possible: hazard -> only exact one token when next is not glued-clean
                return {c2: And_([hit, b]) for c2, b in self.after_token(k).items()}
            run = TRUE
            for k2 in range(k, N + 1):
                consumed_something = (k2 > k) or (r != 0)
                if consumed_something:
                    stop = Or_([length == k2] + ([Or_([tok[k2] == v for v in dirty0])] if k2 < N else []))
                    out[(k2, 0)] = And_([run, length >= k2, stop])
                if k2 < N:
                    run = self.name_it(And_([run, length > k2, Or_([tok[k2] == v for v in clean])]))
            return out
        if isinstance(e, pp.Token):
            if k >= N or r != 0: return {}
            if id(e) not in leaf_cache: leaf_cache[id(e)] = leaf_full(e)
            full = leaf_cache[id(e)]
            if not full: return {}
            hit = And_([length > k, Or_([tok[k] == v for v in full])])
            return {c2: And_([hit, b]) for c2, b in self.after_token(k).items()}
        if isinstance(e, pp.And):
            cur = {c: TRUE}
            for ch in e.exprs:
                cur = self.seq(cur, lambda c1, ch=ch: self.M(ch, c1))
                if not cur: break
            return cur
        if isinstance(e, pp.Or):
            alts = [self.M(ch, c) for ch in e.exprs]
            # "longest" is by character position; cursors are ordered by (k, progress in separator)
            def rank(c2): return (c2[0], {2: 0, 3: 1, 1: 2, 0: 3}[c2[1]] if c2[0] == k else 0) if False else c2[0] * 10 + {2: 0, 3: 1, 1: 2, 0: 3}[c2[1]]
            out = {}
            allc = sorted(set(c2 for a in alts for c2 in a), key=rank)
            for c2 in allc:
                here = Or_([a[c2] for a in alts if c2 in a])
                longer = Or_([a[c3] for a in alts for c3 in a if rank(c3) > rank(c2)])
                out[c2] = And_([here, Not_(longer)])
            return out
        if isinstance(e, pp.MatchFirst):
            out, prev_fail = {}, TRUE
            for ch in e.exprs:
                a = self.M(ch, c)
                for c2, b in a.items():
                    out.setdefault(c2, []).append(And_([prev_fail, b]))
                prev_fail = self.name_it(And_([prev_fail, Not_(Or_(list(a.values())))]))
            return {c2: Or_(v) for c2, v in out.items()}
        if isinstance(e, pp.Opt):
            a = self.M(e.expr, c)
            out = dict(a)
            out[c] = Or_([out.get(c, FALSE), Not_(Or_(list(a.values())))])
            return out
        if isinstance(e, (pp.ZeroOrMore, pp.OneOrMore)):
            return self.star(e, c, isinstance(e, pp.OneOrMore))
        if isinstance(e, pp.NotAny):
            a = self.M(e.expr, c)
            return {c: Not_(Or_(list(a.values())))}
        if getattr(e, 'expr', None) is not None:
            return self.M(e.expr, c)
        raise NotImplementedError(type(e).__name__)
    def star(self, e, c, at_least_one):
        key = (id(e), c, at_least_one)
        if key in self.smemo: return self.smemo[key]
        a = self.M(e.expr, c)
        out = {}
        if not at_least_one:
            out[c] = [Not_(Or_(list(a.values())))]
        for c1, b in a.items():
            if c1 == c: continue
            for c2, cnd in self.star(e, c1, False).items():
                out.setdefault(c2, []).append(And_([b, cnd]))
        res = {c2: self.name_it(Or_(v)) for c2, v in out.items()}
        self.smemo[key] = res
        return res
    def accepts(self):
        res = {}
        for s0 in (0, 1, 2):
            for c2, b in self.M(root, (0, s0)).items():
                res.setdefault(c2, []).append(And_([self.sep[0] == s0, b]))
        return Or_([Or_(v) for v in res.values()])
    def wellformed(self):
        cs = []
        for k in range(N + 1):
            cs.append(z3.And(self.sep[k] >= 0, self.sep[k] <= 2))
        for k in range(1, N):
            bad = [z3.And(tok[k - 1] == ia, tok[k] == ib) for ia, a in enumerate(V) for ib, b in enumerate(V) if not glue_ok(a, b)]
            cs.append(z3.Implies(z3.And(self.sep[k] == 0, length > k), Not_(Or_(bad))))
        for k in range(N + 1):
            cs.append(z3.Implies(length < k, self.sep[k] == 0))
        eq, lb = V.index("="), V.index("{")
        atoms = [V.index(a) for a in ("3", "1.5", '"s"', "A")]
        enders = [V.index(a) for a in (",", ";", ")")]
        for k in range(N):
            if k + 2 < N:
                cs.append(z3.Implies(z3.And(tok[k] == eq, tok[k+1] != lb), z3.And(Or_([tok[k+1] == a for a in atoms]), Or_([tok[k+2] == a for a in enders]), self.sep[k+2] != 2, length > k + 2)))
            else:
                cs.append(tok[k] != eq)
            if k >= 2 and k + 1 < N:
                cs.append(z3.Implies(z3.And(tok[k] == eq, tok[k+1] == lb), z3.Or(tok[k-2] == V.index("<"), tok[k-2] == V.index(","))))
            elif k + 1 < N:
                cs.append(z3.Not(z3.And(tok[k] == eq, tok[k+1] == lb)))
        inc, lt, gt, hdr = V.index("#include"), V.index("<"), V.index(">"), V.index("a.h")
        for k in range(N):
            if k + 3 < N:
                cs.append(z3.Implies(tok[k] == inc, z3.And(length > k + 3, tok[k+1] == lt, tok[k+2] == hdr, tok[k+3] == gt, self.sep[k+2] == 0, self.sep[k+3] == 0)))
            else:
                cs.append(tok[k] != inc)
        return cs

def render(m, enc):
    L = m[length].as_long(); out = ""
    for k in range(L + 1):
        s = m.eval(enc.sep[k], model_completion=True).as_long()
        out += {0: "", 1: " ", 2: " " + COMMENT + " "}[s]
        if k < L: out += V[m.eval(tok[k], model_completion=True).as_long()]
    return out

t0 = time.time()
E1, E2 = Enc("a"), Enc("b")
acc1, acc2 = E1.accepts(), E2.accepts()
print("encoded in %.1fs defs=%d+%d" % (time.time() - t0, len(E1.defs), len(E2.defs)))
s = z3.Solver()
s.add(E1.defs); s.add(E2.defs); s.add(E1.wellformed()); s.add(E2.wellformed())
for k in range(N): s.add(tok[k] >= 0, tok[k] < END)
s.add(length >= 1, length <= N)
def tree(text):
    try: return repr(parser.Module.parseString(text))
    except Exception as ex: return "REJECT " + type(ex).__name__
# witness
s.push(); s.add(acc1, length == N, z3.Or([E1.sep[k] == 2 for k in range(1, N)]))
r = s.check(); print("witness with comment:", r)
if str(r) == "sat":
    txt = render(s.model(), E1); print("   ", repr(txt), "->", tree(txt)[:80])
s.pop()
# layout-difference query; enumerate a few distinct witnesses by blocking the token vector
s.push(); s.add(acc1, Not_(acc2))
for it in range(int(sys.argv[2]) if len(sys.argv) > 2 else 6):
    t0 = time.time(); r = s.check(); print("layout difference:", r, "%.1fs" % (time.time() - t0))
    if str(r) != "sat": break
    m = s.model(); a, b = render(m, E1), render(m, E2)
    print("   A:", repr(a), "->", tree(a)[:70]); print("   B:", repr(b), "->", tree(b)[:70])
    L = m[length].as_long()
    s.add(Not_(And_([tok[k] == m.eval(tok[k], model_completion=True) for k in range(L)] + [length == L])))
s.pop()
