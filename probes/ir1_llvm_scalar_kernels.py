"""Prototype: symbolic execution of matlab.h scalar kernels from LLVM IR with z3."""
import re, sys, z3

ir = open('/tmp/probe/k.ll').read()
funcs = {}
for m in re.finditer(r'^define [^@\n]*@([\w.$]+)\(([^\n]*)\)[^()\n]*\{\n(.*?)^\}', ir, re.S | re.M):
    name, params, body = m.groups()
    blocks, cur = {}, 'entry'
    blocks[cur] = []
    for line in body.split('\n'):
        line = line.split(';')[0].rstrip() if not line.strip().startswith('call') else line.rstrip()
        if not line.strip(): continue
        lm = re.match(r'^(\d+):', line)
        if lm:
            cur = lm.group(1); blocks[cur] = []; continue
        blocks[cur].append(line.strip())
    pnames = re.findall(r'(%\d+)\s*(?:,|$)', params)
    funcs[name] = (pnames, blocks)

class Err(Exception): pass

class Mx:
    """symbolic mxArray record"""
    def __init__(self, classid, M, N, data):
        self.classid, self.M, self.N, self.data = classid, M, N, data  # data: list of 8 BV8 (first element)

def bv(v, w): return z3.BitVecVal(v, w)

def run(fname, args, pc, results, depth=0):
    """path-wise execution; results: list of (path_condition, outcome)"""
    pnames, blocks = funcs[fname]
    env = dict(zip(pnames, args))
    def val_(env, tok, w=None):
        tok = tok.strip()
        if tok.startswith('%'): return env[tok]
        if tok in ('true', 'false'): return z3.BoolVal(tok == 'true')
        if re.match(r'^-?\d+$', tok): return bv(int(tok), w)
        if tok.startswith('0x') or re.match(r'^-?\d+\.\d+e[+-]\d+$', tok):
            return z3.FPVal(float(tok), z3.Float64())
        raise NotImplementedError(tok)
    def width(ty):
        return {'i1': 1, 'i8': 8, 'i32': 32, 'i64': 64}[ty]
    def step(block, prev, pc, env):
        val = lambda tok, w=None: val_(env, tok, w)
        for ins in blocks[block]:
            m = re.match(r'(%\d+) = phi (\w+) (.*)', ins)
            if m:
                dst, ty, rest = m.groups()
                for v, b in re.findall(r'\[ ([^,]+), %(\w+) \]', rest):
                    if b == prev or (prev == 'entry' and b == '1'):
                        env[dst] = val(v, width(ty) if ty != 'double' else None)
                continue
            m = re.match(r'(%\d+) = call .*@(\w+)\((.*)\)', ins)
            if m:
                dst, callee, a = m.groups()
                av = [x.strip().split(' ')[-1] for x in a.split(',')] if a.strip() else []
                if callee == 'mxGetM': env[dst] = env[av[0]].M
                elif callee == 'mxGetN': env[dst] = env[av[0]].N
                elif callee == 'mxGetClassID': env[dst] = env[av[0]].classid
                elif callee == 'mxGetData': env[dst] = ('ptr', env[av[0]], 0)
                elif callee == 'mxGetScalar':
                    a0 = env[av[0]]
                    raw = z3.Concat(*reversed(a0.data))
                    asdouble = z3.fpBVToFP(raw, z3.Float64())
                    asu32 = z3.fpUnsignedToFP(z3.RNE(), z3.Extract(31, 0, raw), z3.Float64())
                    env[dst] = z3.If(a0.classid == 6, asdouble, asu32)  # prototype: double or uint32 only
                elif callee == 'mxCreateNumericArray':
                    env[dst] = Mx(env[av[2]] if av[2].startswith('%') else bv(int(av[2]), 32), bv(1, 64), bv(1, 64), [bv(0, 8)] * 8)
                elif callee == 'mxCreateDoubleScalar':
                    d = env[av[0]]
                    raw = z3.fpToIEEEBV(d)
                    env[dst] = Mx(bv(6, 32), bv(1, 64), bv(1, 64), [z3.Extract(8*i+7, 8*i, raw) for i in range(8)])
                else: raise NotImplementedError(callee)
                continue
            if ins.startswith('call void (i8*, i8*, ...) @mexErrMsgIdAndTxt') or ins.startswith('call void @mexErrMsg'):
                results.append((pc, 'ERROR')); return
            if ins.startswith('call void @llvm.lifetime'): continue
            if ins == 'unreachable': return
            m = re.match(r'(%\d+) = (trunc|zext|sext) (\w+) (%\d+) to (\w+)', ins)
            if m:
                dst, op, t1, src, t2 = m.groups(); v = env[src]
                if t1 == 'i1': v = z3.If(v, bv(1, 1), bv(0, 1)) if z3.is_bool(v) else v
                env[dst] = {'trunc': lambda: z3.Extract(width(t2)-1, 0, v), 'zext': lambda: z3.ZeroExt(width(t2)-width(t1), v), 'sext': lambda: z3.SignExt(width(t2)-width(t1), v)}[op]()
                continue
            m = re.match(r'(%\d+) = icmp (\w+) (\w+) ([^,]+), (.+)', ins)
            if m:
                dst, cc, ty, a, b = m.groups(); x, y = val(a, width(ty)), val(b, width(ty))
                env[dst] = {'ne': x != y, 'eq': x == y, 'sgt': x > y, 'slt': x < y, 'ugt': z3.UGT(x, y), 'ult': z3.ULT(x, y)}[cc]; continue
            m = re.match(r'(%\d+) = fcmp (\w+) double ([^,]+), (.+)', ins)
            if m:
                dst, cc, a, b = m.groups(); x, y = val(a), val(b)
                env[dst] = {'une': z3.Not(z3.fpEQ(x, y)), 'oeq': z3.fpEQ(x, y)}[cc]; continue
            m = re.match(r'(%\d+) = select i1 (%\d+), i1 (\w+), i1 (%?\w+)', ins)
            if m:
                dst, c, a, b = m.groups(); env[dst] = z3.If(env[c], val(a), val(b)); continue
            m = re.match(r'(%\d+) = fptosi double (%\d+) to (\w+)', ins)
            if m:
                dst, src, ty = m.groups(); env[dst] = z3.fpToSBV(z3.RTZ(), env[src], z3.BitVecSort(width(ty))); continue
            m = re.match(r'(%\d+) = fptoui double (%\d+) to (\w+)', ins)
            if m:
                dst, src, ty = m.groups(); env[dst] = z3.fpToUBV(z3.RTZ(), env[src], z3.BitVecSort(width(ty))); continue
            m = re.match(r'(%\d+) = (alloca|getelementptr|bitcast) (.*)', ins)
            if m:
                dst, op, rest = m.groups()
                if op == 'alloca': env[dst] = ('stack', dst)
                elif op == 'bitcast':
                    src = re.findall(r'(%\d+) to', rest)[0]; env[dst] = env[src]
                else:
                    src = re.findall(r'\* (%\d+)', rest)[0]; env[dst] = env[src]
                continue
            m = re.match(r'store (\w+) ([^,]+), \w+\* (%\d+)', ins)
            if m:
                ty, v, p = m.groups(); ptr = env[p]
                if ptr[0] == 'ptr':
                    x = val(v, width(ty)) if ty != 'double' else z3.fpToIEEEBV(val(v))
                    nb = x.size() // 8 if x.size() >= 8 else 1
                    if x.size() == 1: x = z3.ZeroExt(7, x)
                    mx = ptr[1]; mx.data = list(mx.data)
                    for i in range(nb): mx.data[i] = z3.Extract(8*i+7, 8*i, x)
                continue
            m = re.match(r'(%\d+) = load (\w+), \w+\* (%\d+)', ins)
            if m:
                dst, ty, p = m.groups(); ptr = env[p]
                if ptr[0] == 'ptr':
                    nb = max(1, (64 if ty == 'double' else width(ty)) // 8)
                    raw = z3.Concat(*reversed(ptr[1].data[:nb])) if nb > 1 else ptr[1].data[0]
                    env[dst] = z3.fpBVToFP(raw, z3.Float64()) if ty == 'double' else (z3.Extract(width(ty)-1, 0, raw))
                elif ptr[0] == 'arg': env[dst] = ptr[1]
                else: env[dst] = bv(0, width(ty))
                continue
            m = re.match(r'br i1 (%\d+), label %(\w+), label %(\w+)', ins)
            if m:
                c, t, f = m.groups(); cond = env[c]
                for target, cnd in ((t, cond), (f, z3.Not(cond))):
                    s = z3.Solver(); s.add(pc); s.add(cnd)
                    if str(s.check()) == 'sat':
                        e2 = dict(env); step(target, block, pc + [cnd], e2)
                return
            m = re.match(r'br label %(\w+)', ins)
            if m: step(m.group(1), block, pc, env); return
            m = re.match(r'switch i32 (%\d+), label %(\w+) \[', ins)
            if m:
                v, default = m.groups(); cases = []
                # cases are on following lines in this block list
                idx = blocks[block].index(ins)
                for l in blocks[block][idx+1:]:
                    cm = re.match(r'i32 (\d+), label %(\w+)', l)
                    if cm: cases.append((int(cm.group(1)), cm.group(2)))
                notany = []
                for cv, tgt in cases:
                    cnd = env[v] == cv; notany.append(env[v] != cv)
                    s = z3.Solver(); s.add(pc); s.add(cnd)
                    if str(s.check()) == 'sat': step(tgt, block, pc + [cnd], dict(env))
                s = z3.Solver(); s.add(pc); s.add(notany)
                if str(s.check()) == 'sat': step(default, block, pc + notany, dict(env))
                return
            m = re.match(r'ret (\w+\*?|%struct\.mxArray_tag\*) (%?\w+)', ins)
            if m:
                results.append((pc, ('RET', env.get(m.group(2), m.group(2))))); return
            raise NotImplementedError(ins)
    step('entry', 'entry', pc, env)

def roundtrip(wrapf, unwrapf, w, is_double=False):
    v = z3.FP('v', z3.Float64()) if is_double else z3.BitVec('v', w)
    r1 = []
    run(wrapf, [('arg', v)], [], r1)
    assert len(r1) == 1 and r1[0][1][0] == 'RET', r1
    mx = r1[0][1][1]
    r2 = []
    run(unwrapf, [mx], [], r2)
    ok = True
    for pc, out in r2:
        s = z3.Solver(); s.add(pc)
        if out == 'ERROR':
            res = s.check(); print('   error path reachable after wrap:', res); ok &= str(res) == 'unsat'; continue
        rv = out[1]
        if z3.is_bool(rv): rv = z3.If(rv, bv(1, w), bv(0, w))
        bad = z3.Not(z3.fpToIEEEBV(rv) == z3.fpToIEEEBV(v)) if is_double else rv != v
        s.add(bad); res = s.check()
        print('   path', len(pc), 'mismatch query:', res, s.model() if str(res) == 'sat' else '')
        ok &= str(res) == 'unsat'
    return ok

W = '_Z4wrapI%sEP11mxArray_tagRKT_'; U = '_Z6unwrapI%sET_PK11mxArray_tag'
for nm, code, w in (('int', 'i', 32), ('size_t', 'm', 64), ('char', 'c', 8), ('uchar', 'h', 8)):
    print(nm, roundtrip(W % code, U % code, w))
print('double', roundtrip(W % 'd', U % 'd', 64, True))
# scalar guard with full-width dims
M, N = z3.BitVecs('M N', 64)
r = []
run(U % 'i', [Mx(z3.BitVec('cls', 32), M, N, [z3.BitVec(f'b{i}', 8) for i in range(8)])], [], r)
for pc, out in r:
    if out != 'ERROR':
        s = z3.Solver(); s.add(pc); s.add(z3.Or(M != 1, N != 1))
        res = s.check()
        print('non-scalar accepted?', res, (s.model()[M], s.model()[N]) if str(res) == 'sat' else '')
        break
