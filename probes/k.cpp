#include <cstdint>
#include "/repo/matlab.h"
