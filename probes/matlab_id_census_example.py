import re, sys
import gtwrap.interface_parser as parser
import gtwrap.template_instantiator as inst
from gtwrap.matlab_wrapper import MatlabWrapper
src = """
namespace ns {
enum Kind { K0, K1 };
virtual class Base { Base(); void bf() const; };
virtual class A : ns::Base {
  A();
  A(int a, double b = 2.0, const ns::Base& c = ns::Base());
  void f(int x, string s = "hi") const;
  void f(double y) const;
  static ns::A Make(int n = 3);
  ns::Base* g(ns::Base* p, ns::Base@ r, const ns::Base& q, ns::Kind k) const;
  pair<int, ns::Base*> h() const;
  int prop;
  void serialize() const;
  enum Color { Red, Green };
  ns::A::Color col(ns::A::Color c) const;
};
class P { };
double ff(int a, double b = 1.5);
double ff(string s);
}
class G { G(Vector v, Matrix m); Vector vv() const; };
"""
m = inst.instantiate_namespace(parser.Module.parseString(src))
w = MatlabWrapper('mod', top_module_namespace=[''], ignore_classes=[''], use_boost_serialization=("ser" in sys.argv))
w.wrap_namespace(m); w.generate_wrapper(m)
def flat(c, path=""):
    out = []
    for x in c:
        if isinstance(x, list):
            for y in x: out += flat([y], path)
        elif isinstance(x[1], list):
            for y in x[1]: out.append((path + x[0] + "/" + y[0], y[1]))
        else:
            out.append((path + x[0], x[1]))
    return out
files = flat(w.content)
for n, t in files:
    print("=====", n)
    if "print" in sys.argv: print(t)
cpp = [t for n, t in files if n.endswith(".cpp")][-1]
open("/tmp/probe/m1/mod_wrapper.cpp", "w").write(cpp)
for n, t in files:
    if n.endswith(".m"): open("/tmp/probe/m1/" + n.replace("/", "__"), "w").write(t)
calls = []
for n, t in files:
    if n.endswith(".m"):
        for mm in re.finditer(r"mod_wrapper\((\d+)", t): calls.append((int(mm.group(1)), n))
cases = {int(a): b for a, b in re.findall(r"case (\d+):\n\s+(\w+)\(nargout", cpp)}
defs = re.findall(r"^void (\w+)\(int nargout", cpp, re.M)
print("callsites", sorted(calls))
print("cases", cases)
print("defs", defs)
print("wrapper_id", w.wrapper_id)
