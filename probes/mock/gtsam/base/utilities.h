#pragma once
