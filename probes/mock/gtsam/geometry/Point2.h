#pragma once
