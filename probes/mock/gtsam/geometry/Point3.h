#pragma once
