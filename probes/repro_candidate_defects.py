import tempfile, os, traceback
from gtwrap.pybind_wrapper import PybindWrapper
from gtwrap.matlab_wrapper import MatlabWrapper
w = PybindWrapper("mod", top_module_namespaces=[''], ignore_classes=[''], module_template="{wrapped_namespace}")
print(w.wrap_file("namespace a { class X{}; } namespace a { class Y{}; }", module_name="mod"))
print("---- matlab global ignore")
d = tempfile.mkdtemp()
open(d+"/f.i","w").write("class G { G(); };\nclass H { H(); };\n")
for ign in (["G"], ["::G"]):
    try:
        m = MatlabWrapper('mod', top_module_namespace=[''], ignore_classes=ign)
        c = m.wrap([d+"/f.i"], path=d+"/out")
        cpp = [x for x in c if isinstance(x, tuple) and x[0].endswith('.cpp')][-1][1]
        print(ign, "files:", [x[0] for x in c if isinstance(x, tuple)], "collector_G typedef:", "Collector_G;" in cpp, "uses collector_G:", "collector_G.insert" in cpp)
    except Exception as e:
        print(ign, "EXC", type(e).__name__, e)
print("---- concat")
open(d+"/a.i","w").write("class A { A(); };\n// trailing comment")
open(d+"/b.i","w").write("class B { B(); };\n")
m = MatlabWrapper('mod', top_module_namespace=[''], ignore_classes=[''])
c = m.wrap([d+"/a.i", d+"/b.i"], path=d+"/out2")
print([x[0] for x in c if isinstance(x, tuple)])
