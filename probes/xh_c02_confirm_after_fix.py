import gtwrap.interface_parser as parser
import gtwrap.template_instantiator.helpers as H
from crosshair.tracers import NoTracing

# probe-only: emulate a component-wise fix to see whether CrossHair can *confirm*
_orig = H.instantiate_type
def fixed_instantiate_type(ctype, template_typenames, instantiations, cpp_typename, instantiated_class=None):
    parts = ctype.typename.namespaces + [ctype.typename.name]
    if len(parts) > 1 and parts[0] in template_typenames and not ctype.typename.instantiations:
        idx = template_typenames.index(parts[0])
        inst = instantiations[idx]
        tn = parser.Typename(inst.namespaces + [inst.name] + parts[1:])
        return parser.Type(tn, ctype.is_const, ctype.is_shared_ptr, ctype.is_ptr, ctype.is_ref, ctype.is_basic)
    return _orig(ctype, template_typenames, instantiations, cpp_typename, instantiated_class)

AL = "abAB_"
def ident(s: str, lo: int, hi: int) -> bool:
    return lo <= len(s) <= hi and all(c in "abcdefghijklmnopqrstuvwxyzABCDEFGHIJKLMNOPQRSTUVWXYZ_" for c in s)

def mk_type(namespaces, name, const=False):
    tn = parser.Typename(list(namespaces)+[name])
    return parser.Type(tn, "const" if const else "", "", "", "", False)

def check_scoped_fixed(p: str, q: str) -> bool:
    """
    pre: ident(p, 1, 2) and ident(q, 1, 3) and p != q and p != "This" and q != "This"
    post: _
    """
    ctype = mk_type([p], q)
    inst = parser.Typename(["ns", "X"])
    out = fixed_instantiate_type(ctype, [p], [inst], parser.Typename(["Cls"]))
    return out.typename.to_cpp() == "ns::X::" + q

def check_plain(p: str, q: str) -> bool:
    """
    pre: ident(p, 1, 2) and ident(q, 1, 3) and p != q and q != "This"
    post: _
    """
    # unrelated type q must be untouched; bare p must become ns::X
    inst = parser.Typename(["ns", "X"])
    o1 = H.instantiate_type(mk_type([], q), [p], [inst], parser.Typename(["Cls"]))
    o2 = H.instantiate_type(mk_type([], p, True), [p], [inst], parser.Typename(["Cls"]))
    return o1.to_cpp() == q and o2.to_cpp() == "const ns::X"
