import gtwrap.interface_parser as parser
from gtwrap.template_instantiator.helpers import instantiate_type, is_scoped_template

def mk_type(namespaces, name, const=False):
    tn = parser.Typename(list(namespaces)+[name])
    return parser.Type(tn, "const" if const else "", "", "", "", False)

def check_scoped(tparam: str, member: str) -> bool:
    """
    pre: 1 <= len(tparam) <= 2 and 1 <= len(member) <= 3
    pre: tparam.isalpha() and member.isalpha() and tparam.isascii() and member.isascii()
    pre: tparam != member
    post: _
    """
    # T::member with T -> ns::X
    ctype = mk_type([tparam], member)
    inst = parser.Typename(["ns", "X"])
    out = instantiate_type(ctype, [tparam], [inst], parser.Typename(["Cls"]))
    return out.typename.to_cpp() == "ns::X::" + member
