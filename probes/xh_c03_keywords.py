import keyword
import gtwrap.interface_parser as parser
import gtwrap.template_instantiator as inst
from gtwrap.pybind_wrapper import PybindWrapper
from crosshair.tracers import NoTracing

SRC = "class A { void mmm(int a, double b) const; static int sss(); };"
KW = list(keyword.kwlist)
def build():
    m = parser.Module.parseString(SRC)
    m = inst.instantiate_namespace(m)
    return m

def check_kw(name: str) -> bool:
    """
    pre: name in KW
    post: _
    """
    with NoTracing():
        m = build()
        w = PybindWrapper("mod", top_module_namespaces=[''], ignore_classes=[''], module_template="{wrapped_namespace}")
    cls = m.content[0]
    meth = cls.methods[0]
    meth.name = name
    meth.original.name = name
    out = w._wrap_method(meth, "A", prefix="\n", suffix="")
    return out.startswith('\n.def("' + name + '_",')

def check_nonkw(name: str) -> bool:
    """
    pre: 1 <= len(name) <= 8
    pre: all(c in "abcdefghijklmnopqrstuvwxyzABCDEFGHIJKLMNOPQRSTUVWXYZ_" for c in name)
    pre: name not in KW
    pre: name not in ("serialize", "serializable", "print", "svg", "png", "jpeg", "html", "javascript", "markdown", "latex")
    post: _
    """
    with NoTracing():
        m = build()
        w = PybindWrapper("mod", top_module_namespaces=[''], ignore_classes=[''], module_template="{wrapped_namespace}")
    cls = m.content[0]
    meth = cls.methods[0]
    meth.name = name
    meth.original.name = name
    out = w._wrap_method(meth, "A", prefix="\n", suffix="")
    return out.startswith('\n.def("' + name + '",')
