import re, tempfile, os
import gtwrap.interface_parser as parser
import gtwrap.template_instantiator as inst
from gtwrap.matlab_wrapper import MatlabWrapper
from crosshair.tracers import NoTracing
from crosshair import realize

def check_arities(n: int, k: int, kind: int) -> bool:
    """
    pre: 0 <= n <= 4 and 0 <= k <= n and 0 <= kind <= 2
    post: _
    """
    n = realize(n); k = realize(k); kind = realize(kind)
    with NoTracing():
        args = ", ".join("int a%d%s" % (i, (" = %d" % (10+i)) if i >= n-k else "") for i in range(n))
        if kind == 0:
            src = "class A { A(%s); };" % args
        elif kind == 1:
            src = "class A { void f(%s) const; };" % args
        else:
            src = "class A { static void g(%s); };" % args
        m = inst.instantiate_namespace(parser.Module.parseString(src))
        w = MatlabWrapper('mod', top_module_namespace=[''], ignore_classes=[''])
        w.wrap_namespace(m)
        w.generate_wrapper(m)
        cpp = [c for c in w.content if isinstance(c, tuple) and c[0].endswith('.cpp')][-1][1]
        role = {0: 'constructor', 1: 'f', 2: 'g'}[kind]
        counts = sorted(int(x) for x in re.findall(r'checkArguments\("[^"]*",nargout,nargin(?:-1)?,(\d+)\);', cpp) if True)
        # expected arities n..n-k (plus deconstructor's 1)
        exp = sorted(list(range(n-k, n+1)) + [1])
        if kind == 0:
            # constructors do not call checkArguments; count routines instead
            routines = re.findall(r'void A_constructor_(\d+)\(', cpp)
            return len(routines) == k + 1
        return counts == exp
