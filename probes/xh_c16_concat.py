import builtins, io
from typing import List
import gtwrap.interface_parser as parser
from gtwrap.matlab_wrapper import MatlabWrapper
from crosshair.tracers import NoTracing

def lex(s: str) -> List[str]:
    """reference comment-stripping lexer over a tiny alphabet: idents of [a], ';', comments."""
    out = []
    i = 0
    n = len(s)
    while i < n:
        c = s[i]
        if c == '/' and i + 1 < n and s[i+1] == '/':
            i += 2
            while i < n and s[i] != '\n':
                i += 1
        elif c == '/' and i + 1 < n and s[i+1] == '*':
            i += 2
            while i < n and not (s[i] == '*' and i + 1 < n and s[i+1] == '/'):
                i += 1
            if i >= n:
                out.append('UNTERMINATED')
            i += 2
        elif c in ' \n':
            i += 1
        elif c == 'a':
            j = i
            while j < n and s[j] == 'a':
                j += 1
            out.append(s[i:j]); i = j
        else:
            out.append(c); i += 1
    return out

class Captured(Exception):
    pass

def check_concat(f1: str) -> bool:
    """
    pre: len(f1) <= 3 and all(c in "/*\\n a;" for c in f1)
    pre: 'UNTERMINATED' not in lex(f1)
    post: _
    """
    f2 = "a;"
    files = {"one.i": f1, "two.i": f2}
    captured = []
    with NoTracing():
        w = MatlabWrapper('mod', top_module_namespace=[''], ignore_classes=[''])
    real_open = builtins.open
    def fake_open(path, mode='r', *a, **k):
        return io.StringIO(files[path]) if path in files else real_open(path, mode, *a, **k)
    def fake_parse(content):
        captured.append(content)
        raise Captured()
    orig_parse = parser.Module.parseString
    builtins.open = fake_open
    parser.Module.parseString = staticmethod(fake_parse)
    try:
        try:
            w.wrap(["one.i", "two.i"], path="/nonexistent")
        except Captured:
            pass
    finally:
        builtins.open = real_open
        parser.Module.parseString = orig_parse
    return lex(captured[0]) == lex(f1) + lex(f2)
