HEX = "0123456789abcdefABCDEF"
def c_decode(lit: str):
    """Decode body of a C++ narrow string literal to a list of code units/points; None if ill-formed."""
    out = []
    i = 0
    n = len(lit)
    while i < n:
        c = lit[i]
        if c == '"':
            return None
        if c == '\n':
            return None
        if c != '\\':
            out.append(ord(c)); i += 1; continue
        i += 1
        if i >= n: return None
        e = lit[i]
        if e == 'n': out.append(10); i += 1
        elif e == 't': out.append(9); i += 1
        elif e == 'r': out.append(13); i += 1
        elif e == '\\': out.append(92); i += 1
        elif e == "'": out.append(39); i += 1
        elif e == '"': out.append(34); i += 1
        elif e == 'x':
            i += 1
            j = i
            v = 0
            while j < n and lit[j] in HEX:
                v = v * 16 + int(lit[j], 16); j += 1
            if j == i: return None
            if v > 255: return None
            # byte escape: only equals code point if < 0x80
            out.append(v if v < 128 else -v)
            i = j
        elif e == 'u':
            if i + 4 >= n + 0 and i + 5 > n: return None
            out.append(int(lit[i+1:i+5], 16)); i += 5
        elif e == 'U':
            out.append(int(lit[i+1:i+9], 16)); i += 9
        else:
            return None
    return out

def escape(text: str) -> str:
    return repr(text)[1:-1].replace('"', r'\"')

def check(text: str) -> bool:
    """
    pre: len(text) <= 2
    post: _
    """
    return c_decode(escape(text)) == [ord(c) for c in text]
