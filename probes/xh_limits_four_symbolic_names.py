from typing import List
import gtwrap.interface_parser as parser
import gtwrap.template_instantiator as inst
from gtwrap.pybind_wrapper import PybindWrapper
from crosshair.tracers import NoTracing

AL = "abAB_"
def ok(s: str) -> bool:
    return 1 <= len(s) <= 2 and all(c in AL for c in s)

def mkw(top):
    return PybindWrapper("mod", top_module_namespaces=top, ignore_classes=[''], module_template="{wrapped_namespace}")

def check_submodule(n1: str, n2: str, t1: str, fname: str) -> bool:
    """
    pre: ok(n1) and ok(n2) and ok(t1) and ok(fname)
    post: _
    """
    # namespace n1 { namespace n2 { void fname(); } }   top = ['', t1]
    with NoTracing():
        m = parser.Module.parseString("namespace p { namespace q { void f(); } }")
    ns1 = m.content[0]; ns2 = ns1.content[0]; fn = ns2.content[0]
    ns1.name = n1; ns2.name = n2; fn.name = fname
    m = inst.instantiate_namespace(m)
    w = mkw(['', t1])
    out, inc = w.wrap_namespace(m)
    if n1 != t1:
        return out == ""
    expect_decl = '    pybind11::module m_' + n2 + ' = m_.def_submodule("' + n2 + '", "' + n2 + ' submodule");\n'
    return out.startswith(expect_decl) and ('m_' + n2 + '.def("' + fname) in out and (n1 + '::' + n2 + '::' + fname + '(') in out
