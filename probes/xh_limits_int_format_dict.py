from typing import Dict
def f(n: int) -> bool:
    """
    pre: n >= 0
    post: _
    """
    s = 'wrapper({id}, x)'.format(id=n + 1)
    t = s.split('(')[1].split(',')[0]
    return t == str(n + 1)

def g(n: int, d: Dict[int, int]) -> bool:
    """
    pre: n >= 0 and len(d) == 0
    post: _
    """
    d[n] = 5
    d[n+1] = 6
    return d.get(n+2) is None and d.get(n+1) == 6 and d[n] != 6
