#!/bin/sh
# Build the analysis interpreter: an overlay venv on /venv (which holds the repo's own deps and the
# editable `gtwrap` install pointing at /repo) plus crosshair-tool and z3-solver from the offline wheelhouse.
set -e
cd "$(dirname "$0")"
V=.venv
if [ ! -x "$V/bin/python" ] || ! "$V/bin/python" -c "import crosshair, z3, pyparsing, gtwrap" >/dev/null 2>&1; then
  rm -rf "$V"
  /venv/bin/python -m venv "$V"
  SP=$("$V/bin/python" -c "import sysconfig; print(sysconfig.get_paths()['purelib'])")
  echo "import site; site.addsitedir('/venv/lib/python3.12/site-packages')" > "$SP/zz_overlay.pth"
  PIP_NO_INDEX=1 "$V/bin/pip" install -q --no-index --find-links /opt/veriftools/wheels crosshair-tool z3-solver >/dev/null
  "$V/bin/python" -c "import crosshair, z3, pyparsing, gtwrap; print('verif venv ready: crosshair', crosshair.__version__, 'z3', z3.get_version_string())"
fi
