#!/usr/bin/env python3
"""Markdown list of every Engine-X condition per check with its quick / thorough bound and timeout (read from the live conds())."""
import importlib, os, sys
ROOT = os.path.dirname(os.path.dirname(os.path.abspath(__file__)))
sys.path.insert(0, ROOT)
MODS = {"C01": "harness.c01_tree", "C02": "checks.c02", "C03": "checks.c03", "C04": "harness.c04", "C05": "harness.c05", "C06": "harness.c06",
        "C07": "harness.c07_io", "C08": "checks.c08", "C09": "harness.c09", "C10": "harness.c10", "C13": "harness.c13", "C14": "harness.c14",
        "C15": "harness.c15", "C16": "harness.c16", "C17": "harness.c17"}
print("| ID | condition | kind | quick bound (CPU cap) | thorough bound (CPU cap) |")
print("|---|---|---|---|---|")
for pid, m in MODS.items():
    mod = importlib.import_module(m)
    q = {c.func: c for c in mod.conds("quick")}
    t = {c.func: c for c in mod.conds("thorough")}
    for f, c in q.items():
        tb = t.get(f)
        same = tb is not None and tb.bounds == c.bounds
        print("| %s | `%s` | %s | %s (%ds) | %s |" % (pid, f, "shape" if c.kind == "shape-bounded" else "spelling", c.bounds.replace("|", "/"), c.timeout,
                                                   ("same (%ds)" % tb.timeout) if same else ("%s (%ds)" % (tb.bounds.replace("|", "/"), tb.timeout) if tb else "-")))
