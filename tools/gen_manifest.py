#!/usr/bin/env python3
"""Regenerate /verif/MANIFEST.json from the table below (claimed = a checks/<id>.py module exists)."""
import json
import os
import subprocess

ROOT = os.path.dirname(os.path.dirname(os.path.abspath(__file__)))

# id -> (level category, technique, level text, level note, design section)
T = {
 "C01": ("model_checking", "SMT (z3) over a token-level PEG/CFG encoding generated from the live pyparsing grammar, compared with a z3 encoding of an independent reference grammar (every well-formed token string is accepted); CrossHair symbolic execution of a render/parse/project round trip",
         "Bounded: every token string up to N tokens over the grammar's own vocabulary (choice determinism), and every declaration shape in the stated descriptor bounds (tree faithfulness), decided by the solver; counterexamples are replayed on the real parser.",
         "Trusted: pyparsing leaf matching as tabulated by calling the real leaf objects; the hand-written reference recogniser and renderer in /verif; identifier spellings limited to exemplars.", "3/C01"),
 "C02": ("model_checking", "CrossHair (z3) symbolic execution of the real template_instantiator functions with symbolic identifier strings, compared with a reference substitution",
         "Bounded model checking: for every parameter spelling p and other identifier q within the stated length bounds, at every position and nesting depth <= 3 of the harness declarations, the real instantiate_type / InstantiatedClass / InstantiatedGlobalFunction output equals the reference substitution. 'Confirmed over all paths' per condition; inconclusive conditions are reported as such.",
         "Trusted: CrossHair's string/list models and z3; AST nodes are built by the parser's own constructors; reference substitution in harness/c02.py (whole-name / leading-scope match). Outside: longer identifiers, >2 parameters, depth >3.", "3/C02"),
 "C03": ("model_checking", "CrossHair (z3): symbolic method/function/ignore spellings through the real PybindWrapper; solver-enumerated namespace/option shapes through wrap_file with an output census",
         "Bounded: all names up to the stated length (keyword escaping, ignore matching) and all namespace/top-namespace/ignore/serialization shapes within the descriptor bounds.",
         "Trusted: the output reader (regex over generated text) and the expected-census function in /verif.", "3/C03"),
 "C04": ("translation_validation", "CrossHair-enumerated declaration shapes; emitted forwarder text compared character-for-character with an independent reference emitter; one symbolic argument name",
         "Generator obligation only: the text of each binding equals the canonical forwarding form for the declaration. What pybind11 and the C++ compiler make of that text is not checked.",
         "Trusted base: C++17 and pybind11 give the canonical forms their documented meaning; reference emitter in /verif.", "3/C04"),
 "C05": ("model_checking", "CrossHair-enumerated class/function shapes through the real MatlabWrapper; call-site/case/routine tables extracted from the output and checked for bijection and role agreement",
         "Bounded (shape-bounded): ids cannot be symbolic (CrossHair realises ints at str.format), so the claim is over all declaration shapes within the bounds.",
         "Trusted: output reader in /verif.", "3/C05"),
 "C06": ("model_checking", "CrossHair: symbolic default masks through _expand_default_arguments; solver-enumerated (role, arity, mask, passing mode, return shape) through the MATLAB generator against a marshalling table",
         "Bounded over arity <= 4, all masks, the listed passing modes and return shapes.", "Trusted: reference marshalling table transcribed from the property and matlab.h.", "3/C06"),
 "C07": ("model_checking", "SMT (z3) queries over the grammar encoding (total consumption, bracket balance, token accounting, inclusion in a z3-encoded independent reference grammar); CrossHair-enumerated corruptions with an in-memory file-system recorder",
         "Bounded: all token strings up to N tokens; all single-token corruptions of the harness inputs; both generators and both scripts.",
         "Trusted: leaf tabulation; recorder stubs for open/os.makedirs. Termination is observed, not proved.", "3/C07"),
 "C08": ("model_checking", "CrossHair: symbolic argument name through instantiate_name; solver-enumerated template/typedef shapes through instantiate_namespace against a Cartesian-product reference",
         "Bounded over name length and the descriptor space (<=3 parameters, list lengths <=3, typedef placement, namespace depth <=2).", "Trusted: reference product/naming function in /verif.", "3/C08"),
 "C09": ("other", "CrossHair-enumerated shapes; four textual well-formedness obligations decided on the generated translation unit (no compiler in this technique family)",
         "Only the four obligations the statement lists (no leftover template parameter, qualification, lambda/py::arg arity, balance) are decided; compilation itself is not.",
         "No C++ compiler is run. Trusted: tokenizer/reader in /verif.", "3/C09"),
 "C10": ("model_checking", "CrossHair-enumerated shapes through the real MatlabWrapper; content tree compared with the expected toolbox census",
         "Bounded over the descriptor space.", "Trusted: reader and census function in /verif.", "3/C10"),
 "C12": ("model_checking", "SMT (z3): two separator vectors over one symbolic token vector through the grammar encoding with per-node whitespace/ignore semantics read from the live objects; witnesses replayed on the real parser",
         "Bounded: all token strings up to N tokens and all separator choices from the stated set between them, inside the stated re-layout domain.",
         "Trusted: leaf/ignorable tabulation by calling the real objects; generators are functions of the tree (C14).", "3/C12"),
 "C13": ("model_checking", "CrossHair: symbolic parameter renaming; solver-enumerated instantiation subsets/permutations; aliasing check on the template AST",
         "Bounded over renaming length and subsets/permutations of a 3-element instantiation list.", "Trusted: projection function in /verif.", "3/C13"),
 "C14": ("other", "CrossHair one-step induction over wrapper accumulators; I/O footprint via recorder stubs",
         "Reduced scope: in-process history and I/O footprint only; hash seed / locale / processes / concurrency are properties of the interpreter and OS and are not decided.",
         "Trusted: recorder proxies.", "3/C14"),
 "C15": ("model_checking", "CrossHair: symbolic ignore entry against both generators; solver-enumerated delete-vs-ignore shapes with id renumbering",
         "Bounded over entry length and descriptor space.", "Trusted: block splitter/renumbering in /verif.", "3/C15"),
 "C16": ("model_checking", "CrossHair: symbolic file contents through MatlabWrapper.wrap's concatenation with a reference lexer; symbolic stems/options through the scripts",
         "Bounded over content length/alphabet and option shapes.", "Trusted: reference lexer; recorder stubs.", "3/C16"),
 "C17": ("model_checking", "CrossHair: symbolic documentation text through the real literal-building expression decoded by a reference C++ literal decoder; symbolic names through the overload filter on real ElementTree nodes",
         "Bounded over text length (all Unicode code points) and XML shapes.", "Trusted: reference C++ narrow-string-literal decoder in /verif.", "3/C17"),
 "C18": ("model_checking", "LLVM IR (clang -O1) of matlab.h executed symbolically over z3 bit-vectors/IEEE doubles with contract-level MEX stubs",
         "Scalars, vectors, matrices; strings and object handles are not claimed (libstdc++ internals are beyond the hand translator).",
         "Trusted: clang's IR; MEX API stubs per documentation; Vector/Matrix stand-ins; little-endian LP64.", "3/C18"),
}

NA = {
 "C11": "needs execution of the generated MEX C++ over call histories with libstdc++ shared_ptr/std::set, exceptions and a MEX runtime; no CBMC/KLEE-class engine is installed and the hand IR translator cannot encode heap containers, atomics or virtual dispatch (DESIGN 3/C11)",
 "C19": "a timing/complexity property: symbolic execution has no cost semantics and pyparsing's interpreter loop/packrat cache cannot be encoded (DESIGN 3/C19)",
}


def main():
    props = [json.loads(l)["id"] for l in open(os.path.join(ROOT, "properties.jsonl"))]
    checks, na = [], []
    for pid in props:
        if pid in NA:
            na.append({"property_id": pid, "reason": NA[pid]})
            continue
        if not os.path.exists(os.path.join(ROOT, "checks", pid.lower() + ".py")):
            na.append({"property_id": pid, "reason": "not claimed yet: its solver-based check is still under construction (DESIGN 3/%s describes the plan)" % pid})
            continue
        cat, tech, text, note, ref = T[pid]
        checks.append({
            "property_id": pid,
            "quick_cmd": "./vcheck %s --tier quick" % pid,
            "thorough_cmd": "./vcheck %s --tier thorough" % pid,
            "evidence_file": "/verif/evidence/%s.json" % pid,
            "replay_cmd_template": "./vcheck %s --replay {path}" % pid,
            "engine": "vcheck",
            "level_claimed": {"category": cat, "text": text, "design_ref": "DESIGN.md section " + ref},
            "level_note": note,
            "technique": tech,
        })
    try:
        commits = subprocess.run(["git", "-C", "/repo", "log", "--format=%h %s"], capture_output=True, text=True).stdout.splitlines()
    except Exception:
        commits = []
    man = {
        "version": 1,
        "setup_cmd": "sh ./setup.sh",
        "hooks": {
            "guard": "GTWRAP_VERIF",
            "enable": "no hooks: the checks import gtwrap from /repo's working tree (editable install) and compile /repo/matlab.h as it stands; GTWRAP_VERIF is reserved and unused",
            "baseline_off_cmd": "cd /repo && /venv/bin/python -m pytest -ra -q -p no:cacheprovider --timeout=900 --continue-on-collection-errors tests",
            "source_commits": [],
            "add_only": True,
        },
        "engines": [
            {"name": "X", "path": "vlib/xh.py", "serves_properties": [c["property_id"] for c in checks if c["property_id"] not in ("C18",)],
             "kind_free_text": "CrossHair 0.0.110 + z3: symbolic execution of the real gtwrap functions, one OS process per condition"},
            {"name": "G", "path": "vlib/gram.py", "serves_properties": [p for p in ("C01", "C07", "C12") if any(c["property_id"] == p for c in checks)],
             "kind_free_text": "live pyparsing grammar -> z3 token-level match relation"},
            {"name": "L", "path": "vlib/llir.py", "serves_properties": [p for p in ("C18",) if any(c["property_id"] == p for c in checks)],
             "kind_free_text": "clang LLVM IR of matlab.h -> z3 bit-vector/FP symbolic execution"},
        ],
        "checks": checks,
        "not_applicable": na,
        "notes": "Solver-based checking of the real code (see DESIGN.md). Exit codes: 0 held, 1 reproduced violation (VIOLATION line), 2 harness/encoding error. "
                 "fix: commits in /repo: " + "; ".join(c for c in commits if " fix:" in c),
    }
    with open(os.path.join(ROOT, "MANIFEST.json"), "w") as f:
        json.dump(man, f, indent=1)
    print("claimed:", [c["property_id"] for c in checks], "n/a:", [n["property_id"] for n in na])


if __name__ == "__main__":
    main()
