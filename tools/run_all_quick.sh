#!/bin/sh
cd /verif
for id in C01 C02 C03 C04 C05 C06 C07 C08 C09 C10 C12 C13 C14 C15 C16 C17 C18; do
  s=$(date +%s)
  ./vcheck $id --tier quick > /tmp/q_$id.log 2>&1
  rc=$?
  e=$(date +%s)
  echo "$id rc=$rc wall=$((e-s))s $(tail -n1 /tmp/q_$id.log)" >> /tmp/run_all_quick.txt
done
echo DONE >> /tmp/run_all_quick.txt
