#!/bin/sh
# every registered thorough check, one after the other (each uses up to 16 processes); summary lines in $1 (default /tmp/thorough.txt)
out=${1:-/tmp/thorough.txt}
cd "$(dirname "$0")/.."
: > "$out"
for id in ${CHECKS:-C18 C12 C06 C15 C17 C02 C13 C14 C01 C08 C03 C16 C05 C04 C07 C10 C09}; do
  s=$(date +%s)
  ./vcheck $id --tier thorough > /tmp/thorough_$id.log 2>&1
  rc=$?
  e=$(date +%s)
  echo "$id rc=$rc wall=$((e-s))s $(grep -m1 "^\[$id thorough\]" /tmp/thorough_$id.log)" >> "$out"
  grep -E "^(VIOLATION|HARNESS-ERROR|KNOWN-FINDING)" /tmp/thorough_$id.log >> "$out"
done
echo DONE >> "$out"
