#!/usr/bin/env python3
"""Run registered quick checks against seeded changes, each in its own scratch worktree (never in /repo).

usage: tools/seed_matrix.py [-j N] [--checks C02,C13] seed [seed ...]     (seed = directory name under /verif/seeded)
Writes /verif/seeded/<seed>/detection.json and prints one line per (seed, check).
"""
import argparse
import concurrent.futures as cf
import json
import os
import re
import shutil
import subprocess
import time

ROOT = os.path.dirname(os.path.dirname(os.path.abspath(__file__)))
WT = "/tmp/wtm"


def run_one(seed, checks):
    sd = os.path.join(ROOT, "seeded", seed)
    meta = json.load(open(os.path.join(sd, "meta.json")))
    wt = os.path.join(WT, seed)
    subprocess.run(["git", "-C", "/repo", "worktree", "remove", "--force", wt], capture_output=True)
    os.makedirs(WT, exist_ok=True)
    subprocess.run(["git", "-C", "/repo", "worktree", "add", "--detach", wt, "HEAD"], capture_output=True, check=True)
    out = {}
    try:
        p = subprocess.run(["git", "-C", wt, "apply", "--3way", os.path.join(sd, "patch.diff")], capture_output=True, text=True)
        if p.returncode != 0:
            return seed, {"error": "patch does not apply: " + p.stderr[-300:]}
        for chk in checks or [meta.get("property", seed[:3])]:
            env = dict(os.environ, GTWRAP_REPO=wt, VERIF_EVIDENCE_DIR=os.path.join(WT, "ev", seed), VERIF_REPLAY_DIR=os.path.join(WT, "rp", seed))
            t0 = time.time()
            r = subprocess.run([os.path.join(ROOT, "vcheck"), chk, "--tier", "quick"], cwd=ROOT, env=env, capture_output=True, text=True)
            lines = r.stdout.splitlines()
            viol = [l for l in lines if l.startswith("VIOLATION")]
            detail = ""
            for i, l in enumerate(lines):
                if l.startswith("VIOLATION") and i + 1 < len(lines):
                    detail = lines[i + 1].strip()[:300]
                    break
            herr = [l for l in lines if l.startswith("HARNESS-ERROR")]
            out[chk] = {"rc": r.returncode, "violations": len(viol), "first": detail, "harness_errors": len(herr),
                        "first_harness_error": (herr[0][:300] if herr else ""), "wall_s": round(time.time() - t0)}
    finally:
        subprocess.run(["git", "-C", "/repo", "worktree", "remove", "--force", wt], capture_output=True)
        shutil.rmtree(os.path.join(WT, "ev", seed), ignore_errors=True)
        shutil.rmtree(os.path.join(WT, "rp", seed), ignore_errors=True)
    with open(os.path.join(sd, "detection.json"), "w") as f:
        json.dump({"base": subprocess.run(["git", "-C", "/repo", "log", "--format=%h", "-1"], capture_output=True, text=True).stdout.strip(),
                   "results": out}, f, indent=1)
    return seed, out


def main():
    ap = argparse.ArgumentParser()
    ap.add_argument("-j", type=int, default=2)
    ap.add_argument("--checks", default="")
    ap.add_argument("seeds", nargs="*")
    a = ap.parse_args()
    seeds = a.seeds or sorted(os.listdir(os.path.join(ROOT, "seeded")))
    checks = [c for c in a.checks.split(",") if c]
    with cf.ThreadPoolExecutor(a.j) as pool:
        for seed, out in pool.map(lambda s: run_one(s, checks), seeds):
            for chk, r in (out.items() if "error" not in out else [("-", out)]):
                print(seed, chk, json.dumps(r), flush=True)


if __name__ == "__main__":
    main()
