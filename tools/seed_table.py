#!/usr/bin/env python3
"""Markdown table of /verif/seeded: what each seeded change does and which registered quick checks catch it."""
import json, os
ROOT = os.path.dirname(os.path.dirname(os.path.abspath(__file__)))
rows = []
for sd in sorted(os.listdir(os.path.join(ROOT, "seeded"))):
    d = os.path.join(ROOT, "seeded", sd)
    try:
        meta = json.load(open(os.path.join(d, "meta.json")))
    except Exception:
        continue
    det = {}
    if os.path.exists(os.path.join(d, "detection.json")):
        det = json.load(open(os.path.join(d, "detection.json"))).get("results", {})
    caught = [k for k, v in det.items() if v.get("rc") == 1 and v.get("violations")]
    missed = [k for k, v in det.items() if v.get("rc") == 0]
    first = ""
    for k in caught[:1]:
        first = det[k].get("first", "")[:110].replace("|", "/")
    summ = str(meta.get("summary", "")).replace("\n", " ").replace("|", "/")
    if len(summ) > 230:
        summ = summ[:227] + "..."
    rows.append("| %s | %s | %s | %s | %s |" % (sd, meta.get("property", ""), summ, ", ".join(caught) or "-", ", ".join(missed) or "-"))
print("| seed | property | change | caught by (quick) | run and not caught by |")
print("|---|---|---|---|---|")
print("\n".join(rows))
