#!/usr/bin/env python3
"""Regenerate the two generated tables of DESIGN.md (between the marker comments) from the live conds() and seeded/*/detection.json."""
import os, re, subprocess, sys
ROOT = os.path.dirname(os.path.dirname(os.path.abspath(__file__)))
py = os.path.join(ROOT, ".venv", "bin", "python")
env = dict(os.environ, PYTHONPATH=ROOT)
cond = subprocess.run([py, os.path.join(ROOT, "tools", "cond_table.py")], capture_output=True, text=True, env=env).stdout
seed = subprocess.run([sys.executable, os.path.join(ROOT, "tools", "seed_table.py")], capture_output=True, text=True).stdout
p = os.path.join(ROOT, "DESIGN.md")
s = open(p).read()
for name, body in (("COND-TABLE", cond), ("SEED-TABLE", seed)):
    a, b = "<!-- %s-BEGIN -->" % name, "<!-- %s-END -->" % name
    if a in s and b in s:
        s = s[:s.index(a) + len(a)] + "\n" + body.strip() + "\n" + s[s.index(b):]
open(p, "w").write(s)
