#!/usr/bin/env python3
"""Validate candidate seeded changes produced by sub-agents under /tmp/seed_out/<name>/ (patch.diff, demo.py, meta.json):
apply in a scratch worktree of /repo (never /repo itself), run the unedited test suite (94 must pass), run the demo with
the change (must fail) and without (must pass); valid ones are stored under /verif/seeded/<name>/ rebased on /repo HEAD.
usage: tools/validate_seeds.py [name ...]"""
import json, os, shutil, subprocess, sys
ids = sys.argv[1:] or [d for d in sorted(os.listdir('/tmp/seed_out')) if os.path.isdir('/tmp/seed_out/'+d)]
res = {}
for sid in ids:
    src = '/tmp/seed_out/' + sid
    if not os.path.exists(src + '/patch.diff') or not os.path.exists(src + '/demo.py'):
        res[sid] = 'missing files'; continue
    wt = '/tmp/wtv/' + sid
    subprocess.run(['git', '-C', '/repo', 'worktree', 'remove', '--force', wt], capture_output=True)
    os.makedirs('/tmp/wtv', exist_ok=True)
    subprocess.run(['git', '-C', '/repo', 'worktree', 'add', '--detach', wt, 'HEAD'], capture_output=True, check=True)
    tpl = wt + '/gtwrap/matlab_wrapper/matlab_wrapper.tpl'
    open(tpl, 'w').write("#include <gtwrap/matlab.h>\n#include <map>\n")
    out = {}
    applied = None
    for pf in ('patch_rebased.diff', 'patch.diff'):
        if os.path.exists(src + '/' + pf):
            p = subprocess.run(['git', '-C', wt, 'apply', '--3way', src + '/' + pf], capture_output=True, text=True)
            if p.returncode == 0:
                applied = pf; break
            subprocess.run(['git', '-C', wt, 'checkout', 'HEAD', '--', '.'], capture_output=True)
    out['applied'] = applied
    if applied:
        diff = subprocess.run(['git', '-C', wt, 'diff', 'HEAD'], capture_output=True, text=True).stdout
        t = subprocess.run('cd %s && /venv/bin/python -m pytest -q -p no:cacheprovider --timeout=900 --continue-on-collection-errors tests 2>&1 | tail -1' % wt, shell=True, capture_output=True, text=True)
        out['tests_with_change'] = t.stdout.strip()
        d1 = subprocess.run('cd %s && /venv/bin/python %s/demo.py' % (wt, src), shell=True, capture_output=True, text=True, timeout=600)
        out['demo_with_change_rc'] = d1.returncode
        out['demo_with_change_out'] = (d1.stdout + d1.stderr)[-400:]
        subprocess.run(['git', '-C', wt, 'checkout', 'HEAD', '--', '.'], capture_output=True)
        subprocess.run(['git', '-C', wt, 'reset', '-q'], capture_output=True)
        d0 = subprocess.run('cd %s && /venv/bin/python %s/demo.py' % (wt, src), shell=True, capture_output=True, text=True, timeout=600)
        out['demo_without_change_rc'] = d0.returncode
        out['demo_without_out'] = (d0.stdout + d0.stderr)[-300:]
        out['valid'] = ('94 passed' in out['tests_with_change']) and d1.returncode != 0 and d0.returncode == 0
        if out['valid']:
            dst = '/verif/seeded/' + sid
            os.makedirs(dst, exist_ok=True)
            open(dst + '/patch.diff', 'w').write(diff)
            shutil.copy(src + '/demo.py', dst + '/demo.py')
            meta = json.load(open(src + '/meta.json')) if os.path.exists(src + '/meta.json') else {}
            meta['validated'] = {k: out[k] for k in ('applied', 'tests_with_change', 'demo_with_change_rc', 'demo_without_change_rc')}
            meta['validated']['base'] = subprocess.run(['git', '-C', '/repo', 'log', '--format=%h', '-1'], capture_output=True, text=True).stdout.strip()
            json.dump(meta, open(dst + '/meta.json', 'w'), indent=1)
    subprocess.run(['git', '-C', '/repo', 'worktree', 'remove', '--force', wt], capture_output=True)
    res[sid] = out
    print(sid, {k: v for k, v in out.items() if k in ('applied', 'tests_with_change', 'demo_with_change_rc', 'demo_without_change_rc', 'valid')}, flush=True)
json.dump(res, open('/tmp/seed_validation.json', 'w'), indent=1)
