"""Shared plumbing: paths, evidence, replays, known findings, exit codes."""
import hashlib
import json
import os
import sys
import time

ROOT = os.path.dirname(os.path.dirname(os.path.abspath(__file__)))
REPO = os.environ.get("GTWRAP_REPO", "/repo")
# GTWRAP_REPO / VERIF_EVIDENCE_DIR / VERIF_REPLAY_DIR are only set by tools/seed_matrix.py (experiments on scratch
# worktrees); the registered checks run with the defaults: /repo, /verif/evidence, /verif/replays.
EVIDENCE_DIR = os.environ.get("VERIF_EVIDENCE_DIR", os.path.join(ROOT, "evidence"))
REPLAY_DIR = os.environ.get("VERIF_REPLAY_DIR", os.path.join(ROOT, "replays"))
KNOWN_FINDINGS = os.path.join(ROOT, "known_findings.json")
PY = os.path.join(ROOT, ".venv", "bin", "python")

EXIT_OK, EXIT_VIOLATION, EXIT_HARNESS = 0, 1, 2

NCPU = max(1, min(16, os.cpu_count() or 1))


def seed() -> int:
    try:
        return int(os.environ.get("VERIF_SEED", "0"))
    except ValueError:
        return 0


def load_known_findings(pid: str):
    """Entries of known_findings.json for one property, split into open and fixed ones."""
    try:
        with open(KNOWN_FINDINGS) as f:
            data = json.load(f)
    except FileNotFoundError:
        return [], []
    ents = [e for e in data.get("findings", []) if e.get("property") == pid]
    return ([e for e in ents if e.get("status", "open") == "open"],
            [e for e in ents if e.get("status") == "fixed"])


def save_replay(pid: str, payload: dict) -> str:
    d = os.path.join(REPLAY_DIR, pid)
    os.makedirs(d, exist_ok=True)
    blob = json.dumps(payload, sort_keys=True, indent=1, default=str)
    h = hashlib.sha1(blob.encode()).hexdigest()[:12]
    p = os.path.join(d, h + ".json")
    with open(p, "w") as f:
        f.write(blob)
    return p


class Report:
    """Collects what a check did; writes the evidence file; computes the exit code."""

    def __init__(self, pid: str, tier: str, level: str):
        self.pid, self.tier, self.level = pid, tier, level
        self.t0 = time.time()
        self.conditions = []      # dicts: name, engine, verdict, seconds, detail, bounds
        self.violations = []      # dicts with replay path
        self.known_hits = []      # known findings re-observed
        self.harness_errors = []
        self.samples = []
        self.functions = set()
        self.assumptions = []
        self.bounds = {}
        self.outside = []
        self.extra = {}
        self.solver_s = 0.0
        self.paths = 0
        self.queries = 0

    # -- recording -------------------------------------------------------
    def cond(self, name, engine, verdict, seconds=0.0, detail="", **kw):
        d = dict(name=name, engine=engine, verdict=verdict, seconds=round(seconds, 2), detail=detail)
        d.update(kw)
        self.conditions.append(d)
        self.solver_s += seconds
        return d

    def violation(self, what: str, payload: dict):
        payload = dict(payload)
        payload.setdefault("property", self.pid)
        payload.setdefault("what", what)
        path = save_replay(self.pid, payload)
        self.violations.append(dict(what=what, replay=path))
        print("VIOLATION property=%s replay=%s" % (self.pid, path), flush=True)
        print("  " + what, flush=True)

    def known(self, entry: dict):
        self.known_hits.append(entry["id"])
        print("KNOWN-FINDING: property=%s %s" % (self.pid, entry["what"]), flush=True)

    def harness_error(self, msg: str):
        self.harness_errors.append(msg)
        print("HARNESS-ERROR property=%s %s" % (self.pid, msg), flush=True)

    def sample(self, s):
        if len(self.samples) < 12:
            self.samples.append(s)

    # -- output ------------------------------------------------------------
    def finish(self) -> int:
        os.makedirs(EVIDENCE_DIR, exist_ok=True)
        n_conf = sum(1 for c in self.conditions if c["verdict"] == "confirmed")
        n_inc = sum(1 for c in self.conditions if c["verdict"].startswith("inconclusive"))
        n_cex = sum(1 for c in self.conditions if c["verdict"] == "counterexample")
        coverage = {
            # model_checking keys
            "states": max(1, int(self.paths)),
            "transitions": max(1, int(self.queries or self.paths)),
            "traces_validated_against_impl": int(self.extra.get("replayed", 0)) + int(self.extra.get("model_validation_cases", 0)),
            # translation_validation keys
            "programs": max(1, int(self.extra.get("programs", self.paths))),
            "disagreements_checked": int(self.extra.get("replayed", 0)),
            # other
            "explanation": self.extra.get("explanation", "solver-based bounded check; see conditions"),
            # generic
            "evaluations": max(1, int(self.paths)),
            "distinct_nontrivial": max(2, int(self.extra.get("distinct", self.paths))) if self.paths >= 2 else 2,
            "rule": self.extra.get("rule", "each evaluation is one symbolic execution path or one SMT query; distinct = distinct path conditions / queries")
                    + " | distinct_nontrivial counts only paths that satisfied the pre-condition and reached the post-condition (Engine X) or the number of definitions/queries (Engines G, L)",
            "samples": self.samples or ["(no sample recorded)"],
            "exhaustive": False,
            "engine": sorted({c["engine"] for c in self.conditions}),
            "functions_encoded": sorted(self.functions),
            "bounds": self.bounds,
            "outside_bounds": self.outside,
            "conditions": self.conditions,
            "conditions_confirmed": n_conf,
            "conditions_inconclusive": n_inc,
            "conditions_counterexample": n_cex,
            "queries_discharged": int(self.queries),
            "paths_explored": int(self.paths),
            "solver_seconds": round(self.solver_s, 2),
            "known_findings_observed": self.known_hits,
            "harness_errors": self.harness_errors,
        }
        for k, v in self.extra.items():
            coverage.setdefault(k, v)
        ev = {
            "property_id": self.pid,
            "tier": self.tier,
            "seed": seed(),
            "level": self.level,
            "coverage": coverage,
            "assumptions": self.assumptions,
            "wall_s": round(time.time() - self.t0, 2),
            "violations": len(self.violations),
        }
        with open(os.path.join(EVIDENCE_DIR, self.pid + ".json"), "w") as f:
            json.dump(ev, f, indent=1, default=str)
        print("[%s %s] conditions=%d confirmed=%d inconclusive=%d counterexample=%d paths=%d queries=%d wall=%.1fs" % (
            self.pid, self.tier, len(self.conditions), n_conf, n_inc, n_cex, self.paths, self.queries, time.time() - self.t0), flush=True)
        if self.violations:
            return EXIT_VIOLATION
        if self.harness_errors:
            return EXIT_HARNESS
        return EXIT_OK


def tier_from_env(default="quick"):
    return os.environ.get("VERIF_TIER", default)
