"""Engine G: the LIVE pyparsing grammar of gtwrap.interface_parser -> z3 token-level match relation.

Nothing about the dialect is written down here.  The object graph reachable from `Module.rule` (after the
repo's own `.ignore()` call) is walked; combinator semantics are those of pyparsing 3.1.1 (And without
backtracking, first child not pre-parsed; Or = longest by character position with ties to the earliest
alternative; MatchFirst; Opt; greedy repetition with the node's own ignorable skipping between iterations;
NotAny; enhance-nodes that parse their child without pre-parse); every node's whitespace / ignorable
behaviour is read from ITS OWN `skipWhitespace`, `ignoreExprs`, `callPreparse` attributes; leaves and
ignorable expressions are not modelled but TABULATED by calling the real objects on every spelling of a
finite vocabulary harvested from the grammar itself.

Stream model: tok[0..N-1] in V, `length` <= N, and per boundary k a separator kind sep[k] from SEPS (a
tuple of segments: 'W' whitespace or a comment index).  A cursor is (k, r): k tokens consumed and the
segments r of separator k still ahead.
"""
import itertools
import sys
import time

import pyparsing as pp
import z3

FALSE, TRUE = z3.BoolVal(False), z3.BoolVal(True)


def Or_(xs):
    xs = [x for x in xs if not z3.is_false(x)]
    if not xs:
        return FALSE
    if any(z3.is_true(x) for x in xs):
        return TRUE
    return z3.Or(xs) if len(xs) > 1 else xs[0]


def And_(xs):
    xs = [x for x in xs if not z3.is_true(x)]
    if any(z3.is_false(x) for x in xs):
        return FALSE
    if not xs:
        return TRUE
    return z3.And(xs) if len(xs) > 1 else xs[0]


def Not_(x):
    if z3.is_true(x):
        return FALSE
    if z3.is_false(x):
        return TRUE
    return z3.Not(x)


class Unsupported(Exception):
    pass


IDC = set("abcdefghijklmnopqrstuvwxyzABCDEFGHIJKLMNOPQRSTUVWXYZ0123456789_$#")

COMMENTS = ["/*c*/", "// c", "/** { ; \" class **/", "/* a\n * b */", "/**/", "/***/", "// x */ y", "/* // */", "//", "/* /* */"]
EXEMPLARS = ["A", "b", "T", "x", "ns", "This", "std", "3", "a.h", '"s"', "1.5", "[", "]"]
DEFAULT_ATOMS = ["3", "1.5", '"s"', "A"]
CONTENT_FIXED = ("const", "virtual", "static", "@")


def kids(e):
    if hasattr(e, "exprs"):
        return list(e.exprs)
    if getattr(e, "expr", None) is not None:
        return [e.expr]
    return []


class Grammar:
    """Static facts about the live grammar object graph."""

    def __init__(self, root):
        self.root = root
        self.nodes = {}
        self._walk(root)
        V = []
        for e in self.nodes.values():
            if isinstance(e, (pp.Keyword, pp.Literal)) and getattr(e, "match", None):
                if e.match not in V:
                    V.append(e.match)
        for x in EXEMPLARS:
            if x not in V:
                V.append(x)
        self.V = [v for v in V if v not in ("/*", "//", "*/")]
        self.END = len(self.V)
        self.leaf_cache = {}
        self.ign_cache = {}
        self.ign_token_hazards = []
        self.ign_anomalies = []
        self.node_types = sorted({type(e).__name__ for e in self.nodes.values()})
        # reserved spellings: identifier-shaped strings some Keyword/Literal of the grammar matches
        self.reserved = set()
        for e in self.nodes.values():
            if isinstance(e, (pp.Keyword, pp.Literal)) and not isinstance(e, pp.Word):
                for idx in self.leaf_full(e):
                    if self.V[idx][0].isalpha() or self.V[idx][0] in "_#":
                        self.reserved.add(idx)
        self.punct2 = {v for v in self.V if len(v) >= 2 and not (set(v) & IDC)}
        # ignorable expressions in use anywhere
        self.ignorables = {}
        for e in self.nodes.values():
            for ig in e.ignoreExprs:
                self.ignorables[id(ig)] = ig
        for ig in self.ignorables.values():
            for ci in range(len(COMMENTS)):
                self.ign_matches(ig, ci)
            for idx, v in enumerate(self.V):
                if self._ign_eats_token(ig, v):
                    self.ign_token_hazards.append((str(ig), v))

    def _walk(self, e):
        if id(e) in self.nodes:
            return
        self.nodes[id(e)] = e
        for k in kids(e):
            self._walk(k)

    def leaf_full(self, L):
        """indices of vocabulary spellings the real leaf object consumes completely"""
        if id(L) not in self.leaf_cache:
            out = []
            for idx, v in enumerate(self.V):
                try:
                    end, _ = L._parse(v, 0, doActions=False)
                    if end == len(v):
                        out.append(idx)
                except pp.ParseBaseException:
                    pass
            self.leaf_cache[id(L)] = out
        return self.leaf_cache[id(L)]

    def ign_matches(self, ig, ci):
        """does the real ignorable expression consume exactly comment exemplar ci (in a following context)?"""
        key = (id(ig), ci)
        if key not in self.ign_cache:
            text = COMMENTS[ci]
            ctx = text + ("\n" if text.startswith("//") else " ") + "x /* y */ z // w\n"
            ok = False
            try:
                end, _ = ig._parse(ctx, 0, doActions=False)
                ok = end == len(text)
                if not ok:
                    self.ign_anomalies.append((str(ig), text, "consumes %d characters instead of %d" % (end, len(text))))
            except pp.ParseBaseException:
                ok = False
                self.ign_anomalies.append((str(ig), text, "does not match"))
            self.ign_cache[key] = ok
        return self.ign_cache[key]

    @staticmethod
    def _ign_eats_token(ig, v):
        try:
            end, _ = ig._parse(v + " x", 0, doActions=False)
            return end > 0
        except pp.ParseBaseException:
            return False

    def glue_ok(self, a, b):
        """May spellings a and b be written with nothing between them and still be two tokens a, b?"""
        if a[-1] in IDC and b[0] in IDC:
            return False
        if "." in a or "." in b or "/" in a + b or '"' in a + b:
            return not (a[-1] in IDC | {"."} and b[0] in IDC | {"."})
        j = a[-1] + b[0]
        if j in ("/*", "//", "*/"):
            return False
        for p in self.punct2 | {"::"}:
            for cut in range(1, len(p)):
                if a.endswith(p[:cut]) and b.startswith(p[cut:]):
                    return False
        if a.endswith(":") and b.startswith(":"):
            return False
        return True


class Enc:
    """One symbolic reading (semantics `mode`) of one (token vector, separator vector)."""

    def __init__(self, G, N, tok, length, tag="e", mode="peg", seps=((), ("W",)), sep_fixed=None, track_bad=False):
        self.G, self.N, self.tok, self.length, self.tag, self.mode = G, N, tok, length, tag, mode
        self.SEPS = [tuple(s) for s in seps]
        self.sep_fixed = sep_fixed                 # None: symbolic separator kinds; int: that kind everywhere
        self.sep = [z3.Int("%s_s%d" % (tag, k)) for k in range(N + 1)]
        self.memo, self.smemo, self.defs, self.n = {}, {}, [], 0
        self.track_bad = track_bad
        self.unsupported = []
        self.t_encode = 0.0

    # ---------------------------------------------------------------- helpers
    def name_it(self, x):
        if z3.is_true(x) or z3.is_false(x) or z3.is_const(x):
            return x
        self.n += 1
        b = z3.Bool("%s_d%d" % (self.tag, self.n))
        self.defs.append(b == x)
        return b

    def tok_in(self, k, idxs):
        return Or_([self.tok[k] == v for v in idxs])

    def pre(self, e, r):
        """pyparsing preParse of node e on the pending separator segments r."""
        G = self.G
        if e.ignoreExprs:
            progressed = True
            while progressed and r:
                progressed = False
                for ig in e.ignoreExprs:
                    while r:
                        r2 = r
                        if ig.skipWhitespace and r2 and r2[0] == "W":
                            r2 = r2[1:]
                        if r2 and r2[0] != "W" and G.ign_matches(ig, r2[0]):
                            r = r2[1:]
                            progressed = True
                        else:
                            break
        if e.skipWhitespace and r and r[0] == "W":
            r = r[1:]
        return r

    def skip_ignorables_only(self, e, r):
        """_skipIgnorables of node e (used between iterations of a repetition)."""
        G = self.G
        if not e.ignoreExprs:
            return r
        progressed = True
        while progressed and r:
            progressed = False
            for ig in e.ignoreExprs:
                while r:
                    r2 = r
                    if ig.skipWhitespace and r2 and r2[0] == "W":
                        r2 = r2[1:]
                    if r2 and r2[0] != "W" and G.ign_matches(ig, r2[0]):
                        r = r2[1:]
                        progressed = True
                    else:
                        break
        return r

    def after_token(self, k):
        """cursors right after token k was consumed: boundary k+1 with its full separator"""
        if self.sep_fixed is not None:
            return {(k + 1, self.SEPS[self.sep_fixed]): TRUE}
        out = {}
        for s, segs in enumerate(self.SEPS):
            out.setdefault((k + 1, segs), []).append(self.sep[k + 1] == s)
        return {c: Or_(v) for c, v in out.items()}

    @staticmethod
    def rank(c):
        return c[0] * 100 - len(c[1])

    # ---------------------------------------------------------------- relation
    def M(self, e, c, do_pre=True, sup=False):
        """dict cursor' -> (reach, bad)"""
        k, r = c
        if do_pre and getattr(e, "callPreparse", True):
            r = self.pre(e, r)
        key = (id(e), k, r, sup)
        if key in self.memo:
            if self.memo[key] is None:
                raise Unsupported("left recursion through %s" % type(e).__name__)
            return self.memo[key]
        self.memo[key] = None
        res = self.impl(e, (k, r), sup)
        out = {}
        for c2, (b, bad) in res.items():
            if z3.is_false(b):
                continue
            out[c2] = (self.name_it(b), self.name_it(bad) if self.track_bad else FALSE)
        self.memo[key] = out
        return out

    @staticmethod
    def any_(res):
        return Or_([b for b, _ in res.values()])

    def seq(self, first, rest_fn):
        out = {}
        for c1, (b, bad1) in first.items():
            for c2, (cnd, bad2) in rest_fn(c1).items():
                reach = And_([b, cnd])
                bad = And_([reach, Or_([bad1, bad2])]) if self.track_bad else FALSE
                out.setdefault(c2, []).append((reach, bad))
        return {c2: (Or_([x for x, _ in v]), Or_([y for _, y in v])) for c2, v in out.items()}

    def impl(self, e, c, sup):
        k, r = c
        N, G = self.N, self.G
        cfg = self.mode == "cfg"
        if isinstance(e, pp.StringEnd):
            return {c: (self.length == k, FALSE)} if r == () else {}
        if isinstance(e, pp.Empty):
            return {c: (TRUE, FALSE)}
        if isinstance(e, pp.CharsNotIn):
            return self.chars_not_in(e, c, sup)
        if isinstance(e, pp.Token):
            if type(e).__name__ not in ("Literal", "Keyword", "Word", "QuotedString", "Regex", "_SingleCharLiteral",
                                        "_WordRegex", "CaselessKeyword", "CaselessLiteral", "Char"):
                self.unsupported.append(type(e).__name__)
                raise Unsupported("leaf type " + type(e).__name__)
            if k >= N or r != ():
                return {}
            full = G.leaf_full(e)
            if cfg and isinstance(e, pp.Word):
                full = [v for v in full if v not in G.reserved]
            if not full:
                return {}
            hit = And_([self.length > k, self.tok_in(k, full)])
            bad = FALSE
            if self.track_bad and sup:
                if not isinstance(e, (pp.Literal, pp.Keyword)):
                    bad = hit
                else:
                    cf = [v for v in full if G.V[v] in CONTENT_FIXED]
                    if cf:
                        bad = And_([hit, self.tok_in(k, cf)])
            return {c2: (And_([hit, b]), And_([bad, b])) for c2, b in self.after_token(k).items()}
        if isinstance(e, pp.And):
            cur = {c: (TRUE, FALSE)}
            first = True
            for ch in e.exprs:
                if type(ch).__name__ == "_ErrorStop":
                    continue
                cur = self.seq(cur, lambda c1, ch=ch, first=first: self.M(ch, c1, do_pre=not first, sup=sup))
                first = False
                if not cur:
                    break
            return cur
        if isinstance(e, (pp.Or, pp.MatchFirst)) and cfg:
            out = {}
            for ch in e.exprs:
                for c2, (b, _) in self.M(ch, c, sup=sup).items():
                    out.setdefault(c2, []).append(b)
            return {c2: (Or_(v), FALSE) for c2, v in out.items()}
        if isinstance(e, pp.Or):
            alts = [self.M(ch, c, sup=sup) for ch in e.exprs]
            out = {}
            allc = sorted(set(c2 for a in alts for c2 in a), key=self.rank)
            for c2 in allc:
                here = [a[c2] for a in alts if c2 in a]
                longer = Or_([a[c3][0] for a in alts for c3 in a if self.rank(c3) > self.rank(c2)])
                reach = And_([Or_([b for b, _ in here]), Not_(longer)])
                bad = FALSE
                if self.track_bad:
                    # ties go to the earliest alternative
                    terms, earlier = [], TRUE
                    for a in alts:
                        if c2 in a:
                            terms.append(And_([earlier, a[c2][1]]))
                            earlier = And_([earlier, Not_(a[c2][0])])
                    bad = And_([reach, Or_(terms)])
                out[c2] = (reach, bad)
            return out
        if isinstance(e, pp.MatchFirst):
            out, prev_fail = {}, TRUE
            for ch in e.exprs:
                a = self.M(ch, c, sup=sup)
                for c2, (b, bad) in a.items():
                    out.setdefault(c2, []).append((And_([prev_fail, b]), And_([prev_fail, bad])))
                prev_fail = self.name_it(And_([prev_fail, Not_(self.any_(a))]))
            return {c2: (Or_([x for x, _ in v]), Or_([y for _, y in v])) for c2, v in out.items()}
        if isinstance(e, pp.Opt):
            a = self.M(e.expr, c, do_pre=False, sup=sup)
            out = dict(a)
            none = TRUE if cfg else Not_(self.any_(a))
            if c in out:
                out[c] = (Or_([out[c][0], none]), out[c][1])
            else:
                out[c] = (none, FALSE)
            return out
        if isinstance(e, (pp.ZeroOrMore, pp.OneOrMore)):
            if getattr(e, "not_ender", None) is not None:
                raise Unsupported("stopOn in repetition")
            return self.star(e, c, isinstance(e, pp.OneOrMore), sup, first=True)
        if isinstance(e, pp.NotAny):
            a = self.M(e.expr, c, sup=sup)
            return {c: (Not_(self.any_(a)), FALSE)}
        if isinstance(e, pp.FollowedBy):
            if cfg:
                return {c: (TRUE, FALSE)}     # context-free reading: positive lookahead over-approximated
            a = self.M(e.expr, c, do_pre=False, sup=sup)
            return {c: (self.any_(a), FALSE)}
        if isinstance(e, (pp.SkipTo, pp.PrecededBy, pp.AtLineStart, pp.AtStringStart, pp.Each)):
            raise Unsupported(type(e).__name__)
        if isinstance(e, pp.ParseElementEnhance):
            if e.expr is None:
                raise Unsupported("Forward without expression")
            child_sup = sup or isinstance(e, pp.Suppress)
            return self.M(e.expr, c, do_pre=False, sup=child_sup)
        raise Unsupported(type(e).__name__)

    def star(self, e, c, at_least_one, sup, first):
        """greedy repetition; pyparsing skips the repetition node's own ignorables between iterations"""
        k, r = c
        if not first:
            r = self.skip_ignorables_only(e, r)
        key = (id(e), c, r, at_least_one, sup, first)
        if key in self.smemo:
            return self.smemo[key]
        c0 = (k, r)
        a = self.M(e.expr, c0, sup=sup)
        out = {}
        if not at_least_one:
            stop = TRUE if self.mode == "cfg" else Not_(self.any_(a))
            # a failed iteration leaves the cursor where it was BEFORE the ignorable skipping
            out.setdefault(c, []).append((stop, FALSE))
        for c1, (b, bad1) in a.items():
            if c1 == c0:
                continue  # zero-width iteration: pyparsing would loop forever; the grammar has none
            for c2, (cnd, bad2) in self.star(e, c1, False, sup, first=False).items():
                reach = And_([b, cnd])
                out.setdefault(c2, []).append((reach, And_([reach, Or_([bad1, bad2])]) if self.track_bad else FALSE))
        res = {c2: (self.name_it(Or_([x for x, _ in v])), self.name_it(Or_([y for _, y in v])) if self.track_bad else FALSE)
               for c2, v in out.items()}
        self.smemo[key] = res
        return res

    def chars_not_in(self, e, c, sup):
        """CharsNotIn: a greedy run of characters; eats pending separator text and whole tokens free of notChars."""
        k, r = c
        N, G = self.N, self.G
        if getattr(e, "maxLen", 0) not in (0, sys.maxsize, 2 ** 31 - 1) and e.maxLen < 10 ** 6:
            # bounded run (e.g. exact=1 inside nestedExpr content): only single-character tokens are representable
            if k >= N or r != ():
                return {}
            bad = set(e.notChars)
            ones = [i for i, v in enumerate(G.V) if len(v) == 1 and v not in bad and e.minLen <= 1]
            if not ones:
                return {}
            hit = And_([self.length > k, self.tok_in(k, ones)])
            return {c2: (And_([hit, b]), FALSE) for c2, b in self.after_token(k).items()}
        bad = set(e.notChars)
        for v in G.V:
            if set(v[1:]) & bad and not (v[0] in bad):
                raise Unsupported("token %r has a CharsNotIn stop character in its middle" % v)
        if bad & set(" \n\t") or any(bad & set(seg) for seg in COMMENTS):
            raise Unsupported("CharsNotIn that stops at whitespace/comment characters")
        clean = [i for i, v in enumerate(G.V) if not (set(v) & bad)]
        dirty0 = [i for i, v in enumerate(G.V) if v[0] in bad]
        out = {}
        run = TRUE
        for k2 in range(k, N + 1):
            consumed = (k2 > k) or (r != ())
            if consumed:
                stop = Or_([self.length == k2] + ([self.tok_in(k2, dirty0)] if k2 < N else []))
                b = And_([run, self.length >= k2, stop])
                out[(k2, ())] = (b, b if (self.track_bad and sup) else FALSE)
            if k2 < N:
                run = self.name_it(And_([run, self.length > k2, self.tok_in(k2, clean)]))
        return out

    # ---------------------------------------------------------------- whole-input facts
    def start_cursors(self):
        if self.sep_fixed is not None:
            return {(0, ()): TRUE}
        out = {}
        for s, segs in enumerate(self.SEPS):
            out.setdefault((0, segs), []).append(self.sep[0] == s)
        return {c: Or_(v) for c, v in out.items()}

    def results(self, root=None):
        """cursor' -> (reach, bad) for the root from the start of input"""
        t0 = time.time()
        root = root or self.G.root
        res = {}
        for c0, cond in self.start_cursors().items():
            for c2, (b, bad) in self.M(root, c0).items():
                res.setdefault(c2, []).append((And_([cond, b]), And_([cond, bad])))
        self.t_encode += time.time() - t0
        return {c2: (Or_([x for x, _ in v]), Or_([y for _, y in v])) for c2, v in res.items()}

    def accepts(self, root=None):
        return Or_([b for b, _ in self.results(root).values()])

    def domain(self):
        """Well-formedness of the stream + the stated token-level domain (see DESIGN C12)."""
        G, N, tok, length = self.G, self.N, self.tok, self.length
        V = G.V
        cs = []
        if self.sep_fixed is None:
            for k in range(N + 1):
                cs.append(z3.And(self.sep[k] >= 0, self.sep[k] < len(self.SEPS)))
                cs.append(z3.Implies(length < k, self.sep[k] == 0))
            glued = [s for s, segs in enumerate(self.SEPS) if "W" not in segs]
            for k in range(1, N):
                badpairs = [z3.And(tok[k - 1] == ia, tok[k] == ib) for ia, a in enumerate(V) for ib, b in enumerate(V)
                            if not G.glue_ok(a, b)]
                # a separator without whitespace only where the two spellings do not fuse; a glued comment also
                # separates identifiers, but keep the rule uniform (conservative)
                cs.append(z3.Implies(z3.And(Or_([self.sep[k] == s for s in glued if self.SEPS[s] == ()]), length > k),
                                     Not_(Or_(badpairs))))
                # a `//` comment must be followed by a newline, i.e. never be the last segment before a token
                for s, segs in enumerate(self.SEPS):
                    if segs and segs[-1] != "W" and COMMENTS[segs[-1]].startswith("//"):
                        cs.append(self.sep[k] != s)
        return cs

    def default_domain(self):
        """Default-value expressions / initialisers are verbatim regions: one atom token, then , ; or )."""
        G, N, tok, length = self.G, self.N, self.tok, self.length
        V = G.V
        cs = []
        eq, lb = V.index("="), V.index("{")
        atoms = [V.index(a) for a in DEFAULT_ATOMS]
        enders = [V.index(a) for a in (",", ";", ")")]
        # a comment GLUED to the default atom is lexed as part of the verbatim default text (`5/*c*/`); a comment that
        # follows the atom after whitespace is an ordinary comment between two tokens and stays inside the domain
        comment_kinds = [s for s, segs in enumerate(self.SEPS) if segs and segs[0] != "W"]
        for k in range(N):
            if k + 2 < N:
                rhs = [Or_([tok[k + 1] == a for a in atoms]), Or_([tok[k + 2] == a for a in enders]), length > k + 2]
                if self.sep_fixed is None:
                    rhs += [self.sep[k + 2] != s for s in comment_kinds]
                cs.append(z3.Implies(z3.And(tok[k] == eq, tok[k + 1] != lb, length > k), And_(rhs)))
            else:
                cs.append(z3.Implies(length > k, tok[k] != eq))
            if k >= 2 and k + 1 < N:
                cs.append(z3.Implies(z3.And(tok[k] == eq, tok[k + 1] == lb),
                                     z3.Or(tok[k - 2] == V.index("<"), tok[k - 2] == V.index(","))))
            elif k + 1 < N:
                cs.append(z3.Not(z3.And(tok[k] == eq, tok[k + 1] == lb)))
        return cs

    def include_domain(self, glued=True):
        """`#include <header>`: the header is one path token; glued to its brackets when layouts vary."""
        G, N, tok, length = self.G, self.N, self.tok, self.length
        V = G.V
        cs = []
        inc, lt, gt, hdr = V.index("#include"), V.index("<"), V.index(">"), V.index("a.h")
        for k in range(N):
            if k + 3 < N:
                rhs = [length > k + 3, tok[k + 1] == lt, tok[k + 2] == hdr, tok[k + 3] == gt]
                if self.sep_fixed is None and glued:
                    rhs += [self.sep[k + 2] == 0, self.sep[k + 3] == 0]
                cs.append(z3.Implies(z3.And(tok[k] == inc, length > k), z3.And(rhs)))
            else:
                cs.append(z3.Implies(length > k, tok[k] != inc))
            # the header blob occurs nowhere else
            if k >= 2:
                cs.append(z3.Implies(z3.And(tok[k] == hdr, length > k), z3.And(tok[k - 1] == lt, tok[k - 2] == inc)))
            else:
                cs.append(z3.Implies(length > k, tok[k] != hdr))
        return cs

    # ---------------------------------------------------------------- models -> text
    def render(self, m):
        G = self.G
        L = m.eval(self.length, model_completion=True).as_long()
        out = ""
        for k in range(L + 1):
            if self.sep_fixed is not None:
                segs = self.SEPS[self.sep_fixed] if 0 < k < L else ()
            else:
                segs = self.SEPS[m.eval(self.sep[k], model_completion=True).as_long()]
            for i, sg in enumerate(segs):
                if sg == "W":
                    prev = segs[i - 1] if i > 0 else None
                    out += "\n" if (prev is not None and prev != "W" and COMMENTS[prev].startswith("//")) else " "
                else:
                    out += COMMENTS[sg]
            if k < L:
                out += G.V[m.eval(self.tok[k], model_completion=True).as_long()]
        return out

    def tokens(self, m):
        L = m.eval(self.length, model_completion=True).as_long()
        return [self.G.V[m.eval(self.tok[k], model_completion=True).as_long()] for k in range(L)]


def mk_stream(N, tag="t"):
    tok = [z3.Int("%s%d" % (tag, k)) for k in range(N)]
    length = z3.Int(tag + "_len")
    return tok, length


def stream_constraints(G, N, tok, length, min_len=1):
    cs = [length >= min_len, length <= N]
    for k in range(N):
        cs.append(z3.And(tok[k] >= 0, tok[k] < G.END))
    return cs


def real_verdict(text):
    """('accept', tree-repr) or ('reject', exception type) from the REAL parser."""
    import gtwrap.interface_parser as parser
    try:
        t = parser.Module.parseString(text)
        return "accept", t
    except pp.ParseBaseException as ex:
        return "reject", "ParseException"
    except (ValueError, AssertionError) as ex:
        return "reject", type(ex).__name__
