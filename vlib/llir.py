"""Engine L: symbolic execution of the conversion kernels of /repo/matlab.h from clang's LLVM IR over z3.

Build (per run):  clang++-14 -std=c++17 -O1 -S -emit-llvm -I /verif/mock  k.cpp   with k.cpp = #include "/repo/matlab.h".
The interpreter covers the IR subset those kernels compile to; anything else raises Unsupported (-> exit 2).

Values:   iN -> z3 BitVec(N) (i1 -> Bool), double -> z3 FP(11,53), pointers -> ('ptr', object id, byte offset BV64),
          mxArray* -> ('mx', Mx), aggregates -> ('agg', [..]).
Memory:   objects by id: 'bytes' (list of BV8: scalar mx data, i8/i32/i64 locals), 'struct' (dict byte offset -> value),
          'cells' (z3 Array BV64 -> BV64 holding IEEE bits of doubles at byte offsets).
MEX API:  contract-level stubs (see stubs()); mexErrMsg* are noreturn and end the path with outcome ERROR.
"""
import os
import re
import subprocess
import tempfile

import z3

MOCK = os.path.join(os.path.dirname(os.path.dirname(os.path.abspath(__file__))), "mock")
F64 = z3.Float64()
CLASS = dict(UNKNOWN=0, CELL=1, STRUCT=2, LOGICAL=3, CHAR=4, VOID=5, DOUBLE=6, SINGLE=7, INT8=8, UINT8=9, INT16=10,
             UINT16=11, INT32=12, UINT32=13, INT64=14, UINT64=15)


class Unsupported(Exception):
    pass


def bv(v, w):
    return z3.BitVecVal(v, w)


def compile_ir(repo=None, workdir=None, extra_flags=()):
    repo = repo or os.environ.get("GTWRAP_REPO", "/repo")
    d = workdir or tempfile.mkdtemp(prefix="verif_ll_")
    src = os.path.join(d, "k.cpp")
    with open(src, "w") as f:
        f.write('#include <cstdint>\n#include "%s/matlab.h"\n' % repo)
    out = os.path.join(d, "k.ll")
    cmd = ["clang++-14", "-std=c++17", "-O1", "-S", "-emit-llvm", "-I", MOCK, src, "-o", out] + list(extra_flags)
    p = subprocess.run(cmd, capture_output=True, text=True)
    if p.returncode != 0:
        raise Unsupported("clang failed: " + p.stderr[-2000:])
    with open(out) as f:
        return f.read(), d


class Mx:
    """symbolic mxArray record"""

    def __init__(self, classid, M, N, data, is_complex=None):
        self.classid, self.M, self.N, self.data = classid, M, N, data  # data: memory object id
        self.is_complex = z3.BoolVal(False) if is_complex is None else is_complex


class Mem:
    def __init__(self):
        self.objs = {}
        self.n = 0

    def new(self, kind, content):
        self.n += 1
        oid = "o%d" % self.n
        self.objs[oid] = (kind, content)
        return oid

    def copy(self):
        m = Mem()
        m.n = self.n
        m.objs = {k: (kind, (list(c) if kind == "bytes" else dict(c) if kind == "struct" else c)) for k, (kind, c) in self.objs.items()}
        return m


class Module:
    def __init__(self, ir):
        self.ir = ir
        self.funcs = {}
        self.structs = {}
        for m in re.finditer(r'^(%"?[\w.:]+"?) = type \{ ([^}]*) \}', ir, re.M):
            self.structs[m.group(1)] = [x.strip() for x in m.group(2).split(",")]
        for m in re.finditer(r'^define [^@\n]*@([\w.$]+)\(([^\n]*)\)[^()\n]*\{\n(.*?)^\}', ir, re.S | re.M):
            name, params, body = m.groups()
            pnames = re.findall(r"(%\d+)\s*(?:,|$)", params)
            entry = str(len(pnames))          # clang numbers the unnamed entry block after the parameters
            blocks, cur = {}, entry
            blocks[cur] = []
            for line in body.split("\n"):
                if not line.strip().startswith("call") and " call " not in line:
                    line = line.split(";")[0]
                line = line.rstrip()
                if not line.strip():
                    continue
                lm = re.match(r"^(\d+):", line)
                if lm:
                    cur = lm.group(1)
                    blocks[cur] = []
                    continue
                blocks[cur].append(line.strip())
            self.funcs[name] = (pnames, blocks, entry)

    def field_offset(self, sty, idx):
        fields = self.structs[sty]
        off = 0
        for i, f in enumerate(fields):
            size = self.sizeof(f)
            off = (off + size - 1) // size * size
            if i == idx:
                return off
            off += size
        raise Unsupported("field index")

    def sizeof(self, ty):
        ty = ty.strip()
        if ty.endswith("*"):
            return 8
        if ty in ("i64", "double"):
            return 8
        if ty == "i32":
            return 4
        if ty == "i8":
            return 1
        if ty in self.structs:
            return sum(self.sizeof(f) for f in self.structs[ty])
        m = re.match(r"\[(\d+) x (.+)\]$", ty)
        if m:
            return int(m.group(1)) * self.sizeof(m.group(2))
        raise Unsupported("sizeof " + ty)


def width(ty):
    return {"i1": 1, "i8": 8, "i32": 32, "i64": 64}[ty]


class Exec:
    def __init__(self, mod, max_paths=4000):
        self.mod = mod
        self.max_paths = max_paths
        self.npaths = 0
        self.nqueries = 0
        self.solver_s = 0.0
        self.funcs_run = set()
        self.fp_conversions = 0
        self.int_divisions = 0

    def feasible(self, pc):
        import time
        s = z3.Solver()
        s.add(pc)
        t0 = time.time()
        r = s.check()
        self.solver_s += time.time() - t0
        self.nqueries += 1
        return str(r) == "sat"

    # ---- memory access ------------------------------------------------------
    def load(self, mem, ptr, ty):
        if ptr[0] != "ptr":
            raise Unsupported("load from %r" % (ptr,))
        kind, content = mem.objs[ptr[1]]
        off = ptr[2]
        if kind == "struct":
            o = z3.simplify(off).as_long()
            if o not in content:
                raise Unsupported("uninitialised struct field %d" % o)
            return content[o]
        if kind == "bytes":
            o = z3.simplify(off).as_long()
            nb = 8 if ty in ("double", "i64") or ty.endswith("*") else max(1, width(ty) // 8)
            raw = z3.Concat(*reversed(content[o:o + nb])) if nb > 1 else content[o]
            if ty == "i1":
                return raw != 0
            return raw
        if kind == "cells":
            raw = z3.Select(content, off)
            if ty in ("double", "i64"):
                return raw
            raise Unsupported("load %s from double cells" % ty)
        raise Unsupported(kind)

    def store(self, mem, ptr, ty, v):
        if ptr[0] != "ptr":
            raise Unsupported("store to %r" % (ptr,))
        kind, content = mem.objs[ptr[1]]
        off = ptr[2]
        if kind == "struct":
            content[z3.simplify(off).as_long()] = v
            return
        if kind == "bytes":
            o = z3.simplify(off).as_long()
            if z3.is_bool(v):
                x = z3.If(v, bv(1, 8), bv(0, 8))
            else:
                x = v
            nb = max(1, x.size() // 8)
            for i in range(nb):
                content[o + i] = z3.Extract(8 * i + 7, 8 * i, x)
            return
        if kind == "cells":
            x = v
            if x.size() != 64:
                raise Unsupported("narrow store into double cells")
            mem.objs[ptr[1]] = ("cells", z3.Store(content, off, x))
            return
        raise Unsupported(kind)

    def memcpy(self, mem, dst, src, n):
        """llvm.memcpy / memmove between two memory objects of the same kind"""
        if dst[0] != "ptr" or src[0] != "ptr":
            raise Unsupported("memcpy between %r and %r" % (dst[0], src[0]))
        dk, dc = mem.objs[dst[1]]
        sk, sc = mem.objs[src[1]]
        if dk == "cells" and sk == "cells":
            i = z3.BitVec("memcpy_i", 64)
            lam = z3.Lambda([i], z3.If(z3.And(z3.UGE(i, dst[2]), z3.ULT(i - dst[2], n)), z3.Select(sc, i - dst[2] + src[2]), z3.Select(dc, i)))
            mem.objs[dst[1]] = ("cells", lam)
            return
        if dk == "bytes" and sk == "bytes":
            nn, do, so = (z3.simplify(x) for x in (n, dst[2], src[2]))
            if not all(z3.is_bv_value(x) for x in (nn, do, so)):
                raise Unsupported("memcpy of symbolic extent between byte objects")
            nn, do, so = nn.as_long(), do.as_long(), so.as_long()
            chunk = list(sc[so:so + nn])
            dc[do:do + nn] = chunk
            return
        raise Unsupported("memcpy %s <- %s" % (dk, sk))

    # ---- running one function, path-wise ----------------------------------------
    def run(self, fname, args, pc, mem):
        """returns list of (pc, outcome, mem); outcome = ('RET', value) | ('ERROR', message id)"""
        if fname not in self.mod.funcs:
            raise Unsupported("function not in IR: " + fname)
        self.funcs_run.add(fname)
        pnames, blocks, first = self.mod.funcs[fname]
        results = []
        env0 = dict(zip(pnames, args))
        self._step(fname, blocks, first, None, list(pc), env0, mem, results)
        return results

    def _val(self, env, tok, ty=None):
        tok = tok.strip()
        if tok.startswith("%"):
            return env[tok]
        if tok in ("true", "false"):
            return z3.BoolVal(tok == "true")
        if tok in ("null",):
            return ("null",)
        if tok in ("poison", "undef"):
            return ("poison",)
        if re.match(r"^-?\d+$", tok):
            if ty == "i1":
                return z3.BoolVal(int(tok) != 0)
            return bv(int(tok), width(ty))
        if re.match(r"^0x[0-9A-Fa-f]+$", tok):
            return bv(int(tok, 16), 64)                      # a double constant, carried as its IEEE bits
        if re.match(r"^-?\d+\.\d+e[+-]\d+$", tok):
            import struct
            return bv(struct.unpack("<Q", struct.pack("<d", float(tok)))[0], 64)
        raise Unsupported("operand " + tok)

    def _step(self, fname, blocks, block, prev, pc, env, mem, results):
        if self.npaths > self.max_paths:
            raise Unsupported("path budget exceeded")
        ins_list = blocks[block]
        i = 0
        # phi nodes read the environment of the predecessor simultaneously
        phis = {}
        while i < len(ins_list) and " = phi " in ins_list[i]:
            m = re.match(r"(%\d+) = phi ([^\[]+?) (\[.*)", ins_list[i])
            dst, ty, rest = m.groups()
            ty = ty.strip()
            chosen = None
            for v, b in re.findall(r"\[ ([^,]+), %(\w+) \]", rest):
                if b == prev:
                    chosen = self._val(env, v, ty if not ty.endswith("*") and ty != "double" else None)
            if chosen is None:
                raise Unsupported("phi without matching predecessor %s in %s" % (prev, fname))
            phis[dst] = chosen
            i += 1
        env.update(phis)
        self._exec(fname, blocks, block, i, pc, env, mem, results)

    def _exec(self, fname, blocks, block, start, pc, env, mem, results):
        val = lambda tok, ty=None: self._val(env, tok, ty)
        ins_list = blocks[block]
        for pos in range(start, len(ins_list)):
            ins = ins_list[pos]
            # ---- calls
            m = re.match(r"(?:(%\d+) = )?(?:tail |notail |musttail )?call [^@]*@([\w.$]+)\((.*)\)", ins)
            if m:
                dst, callee, a = m.groups()
                if callee.startswith("llvm.lifetime") or callee.startswith("llvm.dbg") or callee.startswith("llvm.assume"):
                    continue
                if callee.startswith("llvm.memcpy") or callee.startswith("llvm.memmove"):
                    argv = self._split_args(a)
                    self.memcpy(mem, self._argval(env, argv[0]), self._argval(env, argv[1]), self._argval(env, argv[2]))
                    continue
                if callee in ("mexErrMsgIdAndTxt", "mexErrMsgTxt"):
                    self.npaths += 1
                    results.append((pc, ("ERROR", callee), mem))
                    return
                argv = self._split_args(a)
                vals = [self._argval(env, x) for x in argv]
                r = self.stub(callee, vals, pc, mem)
                if r is NotImplemented:
                    if callee in self.mod.funcs:
                        subs = self.run(callee, vals, pc, mem)
                        for spc, out, smem in subs:
                            if out[0] == "ERROR":
                                results.append((spc, out, smem))
                                continue
                            e2 = dict(env)
                            if dst:
                                e2[dst] = out[1]
                            self._exec(fname, blocks, block, pos + 1, spc, e2, smem, results)
                        return
                    raise Unsupported("call to " + callee)
                if dst:
                    env[dst] = r
                continue
            if ins == "unreachable":
                return
            m = re.match(r"(%\d+) = (trunc|zext|sext) (\w+) (%\d+) to (\w+)", ins)
            if m:
                dst, op, t1, src, t2 = m.groups()
                v = env[src]
                if z3.is_bool(v):
                    v = z3.If(v, bv(1, 1), bv(0, 1))
                if op == "trunc":
                    r = z3.Extract(width(t2) - 1, 0, v)
                    env[dst] = (r == 1) if t2 == "i1" else r
                elif op == "zext":
                    env[dst] = z3.ZeroExt(width(t2) - width(t1), v)
                else:
                    env[dst] = z3.SignExt(width(t2) - width(t1), v)
                continue
            m = re.match(r"(%\d+) = (add|sub|mul|shl|ashr|lshr|and|or|xor)((?: nuw| nsw| exact)*) (\w+) ([^,]+), (.+)", ins)
            if m:
                dst, op, _fl, ty, a, b = m.groups()
                x, y = val(a, ty), val(b, ty)
                if ty == "i1":
                    env[dst] = {"and": z3.And, "or": z3.Or, "xor": z3.Xor}[op](x, y)
                else:
                    env[dst] = {"add": lambda: x + y, "sub": lambda: x - y, "mul": lambda: x * y, "shl": lambda: x << y,
                                "ashr": lambda: x >> y, "lshr": lambda: z3.LShR(x, y), "and": lambda: x & y,
                                "or": lambda: x | y, "xor": lambda: x ^ y}[op]()
                continue
            m = re.match(r"(%\d+) = (sdiv|udiv|srem|urem)((?: exact)*) (\w+) ([^,]+), (.+)", ins)
            if m:
                dst, op, _fl, ty, a, b = m.groups()
                x, y = val(a, ty), val(b, ty)
                self.int_divisions += 1            # division by zero / INT_MIN / -1 is undefined behaviour (z3 gives a total function)
                env[dst] = {"sdiv": lambda: x / y, "udiv": lambda: z3.UDiv(x, y), "srem": lambda: z3.SRem(x, y), "urem": lambda: z3.URem(x, y)}[op]()
                continue
            m = re.match(r"(%\d+) = (fadd|fsub|fmul|fdiv)((?: fast| nnan| ninf| nsz| arcp| contract| afn| reassoc)*) double ([^,]+), (.+)", ins)
            if m:
                dst, op, _fl, a, b = m.groups()
                x, y = z3.fpBVToFP(val(a), F64), z3.fpBVToFP(val(b), F64)
                r = {"fadd": z3.fpAdd, "fsub": z3.fpSub, "fmul": z3.fpMul, "fdiv": z3.fpDiv}[op](z3.RNE(), x, y)
                env[dst] = z3.fpToIEEEBV(r)
                continue
            m = re.match(r"(%\d+) = fneg double (.+)", ins)
            if m:
                env[m.group(1)] = val(m.group(2)) ^ bv(1 << 63, 64)
                continue
            m = re.match(r"(%\d+) = freeze \S+ (.+)", ins)
            if m:
                env[m.group(1)] = val(m.group(2))
                continue
            m = re.match(r"(%\d+) = extractvalue \{[^}]*\} ([^,]+), (\d+)", ins)
            if m:
                agg = val(m.group(2))
                if agg[0] != "agg":
                    raise Unsupported("extractvalue from %r" % (agg,))
                env[m.group(1)] = agg[1][int(m.group(3))]
                continue
            m = re.match(r"(%\d+) = icmp (\w+) ([\w.%\"*:]+) ([^,]+), (.+)", ins)
            if m:
                dst, cc, ty, a, b = m.groups()
                if ty.endswith("*"):
                    x, y = val(a), val(b)
                    isnull = lambda p: z3.BoolVal(p[0] == "null")
                    eq = z3.BoolVal(x == y) if (x[0] == "null" or y[0] == "null" or x[0] != "ptr") else z3.And(z3.BoolVal(x[1] == y[1]), x[2] == y[2])
                    env[dst] = eq if cc == "eq" else z3.Not(eq)
                    continue
                x, y = val(a, ty), val(b, ty)
                if ty == "i1":
                    env[dst] = (x == y) if cc == "eq" else (x != y)
                    continue
                env[dst] = {"ne": x != y, "eq": x == y, "sgt": x > y, "slt": x < y, "sge": x >= y, "sle": x <= y,
                            "ugt": z3.UGT(x, y), "ult": z3.ULT(x, y), "uge": z3.UGE(x, y), "ule": z3.ULE(x, y)}[cc]
                continue
            m = re.match(r"(%\d+) = fcmp (\w+) double ([^,]+), (.+)", ins)
            if m:
                dst, cc, a, b = m.groups()
                x, y = z3.fpBVToFP(val(a), F64), z3.fpBVToFP(val(b), F64)
                unord = z3.Or(z3.fpIsNaN(x), z3.fpIsNaN(y))
                table = {"oeq": z3.fpEQ(x, y), "une": z3.Not(z3.fpEQ(x, y)), "one": z3.And(z3.Not(unord), z3.Not(z3.fpEQ(x, y))),
                         "olt": z3.fpLT(x, y), "ogt": z3.fpGT(x, y), "ole": z3.fpLEQ(x, y), "oge": z3.fpGEQ(x, y),
                         "ueq": z3.Or(unord, z3.fpEQ(x, y)), "uno": unord, "ord": z3.Not(unord)}
                env[dst] = table[cc]
                continue
            m = re.match(r"(%\d+) = select i1 ([^,]+), (\w+\*?) ([^,]+), (\w+\*?) (.+)", ins)
            if m:
                dst, c, t1, a, t2, b = m.groups()
                env[dst] = z3.If(val(c, "i1"), val(a, t1), val(b, t2))
                continue
            m = re.match(r"(%\d+) = (fptosi|fptoui) double (%\d+) to (\w+)", ins)
            if m:
                dst, op, src, ty = m.groups()
                self.fp_conversions += 1           # out-of-range conversion is undefined behaviour (result unspecified in z3 too)
                f = z3.fpToSBV if op == "fptosi" else z3.fpToUBV
                r = f(z3.RTZ(), z3.fpBVToFP(env[src], F64), z3.BitVecSort(max(8, width(ty))))
                env[dst] = (r != 0) if ty == "i1" else r
                continue
            m = re.match(r"(%\d+) = (sitofp|uitofp) (\w+) (%\d+) to double", ins)
            if m:
                dst, op, ty, src = m.groups()
                v = env[src]
                env[dst] = z3.fpToIEEEBV(z3.fpSignedToFP(z3.RNE(), v, F64) if op == "sitofp" else z3.fpUnsignedToFP(z3.RNE(), v, F64))
                continue
            m = re.match(r"(%\d+) = fcmp", ins)
            m = re.match(r"(%\d+) = alloca (.+?)(?:, align \d+)?$", ins)
            if m:
                dst, ty = m.groups()
                ty = ty.strip()
                if ty in self.mod.structs:
                    env[dst] = ("ptr", mem.new("struct", {}), bv(0, 64))
                else:
                    env[dst] = ("ptr", mem.new("bytes", [bv(0, 8)] * max(8, self.mod.sizeof(ty))), bv(0, 64))
                continue
            m = re.match(r"(%\d+) = bitcast .*? (%\d+) to ", ins)
            if m:
                env[m.group(1)] = env[m.group(2)]
                continue
            m = re.match(r"(%\d+) = getelementptr (?:inbounds )?(.+?), (.+?)\* (%\d+), (.*)", ins)
            if m:
                dst, ty, _pty, base, idxs = m.groups()
                p = env[base]
                if p[0] != "ptr":
                    raise Unsupported("gep on %r" % (p,))
                idxs = [x.strip() for x in idxs.split(",")]
                off = p[2]
                ty = ty.strip()
                first_ty, first_v = idxs[0].split(" ")[0], idxs[0].split(" ")[-1]
                fv = val(first_v, first_ty)
                if first_ty == "i32":
                    fv = z3.SignExt(32, fv)
                off = off + fv * bv(self.mod.sizeof(ty), 64)
                cur = ty
                for ix in idxs[1:]:
                    i2t, i2v = ix.split(" ")[0], ix.split(" ")[-1]
                    am = re.match(r"\[(\d+) x (.+)\]$", cur)
                    if am:
                        iv = val(i2v, i2t)
                        if i2t == "i32":
                            iv = z3.SignExt(32, iv)
                        off = off + iv * bv(self.mod.sizeof(am.group(2)), 64)
                        cur = am.group(2)
                    elif cur in self.mod.structs:
                        off = off + bv(self.mod.field_offset(cur, int(i2v)), 64)
                        cur = self.mod.structs[cur][int(i2v)]
                    else:
                        raise Unsupported("gep into " + cur)
                env[dst] = ("ptr", p[1], z3.simplify(off))
                continue
            m = re.match(r"store ([\w.%\"*:{}, ]+?) ([^, ]+), [^,]+\* (%\d+)", ins)
            if m:
                ty, v, p = m.groups()
                self.store(mem, env[p], ty.strip(), val(v, ty.strip() if not ty.strip().endswith("*") else None))
                continue
            m = re.match(r"(%\d+) = load ([^,]+), [^,]+\* (%\d+)", ins)
            if m:
                dst, ty, p = m.groups()
                env[dst] = self.load(mem, env[p], ty.strip())
                continue
            m = re.match(r"(%\d+) = insertvalue (\{[^}]*\}) ([^,]+), (.+?) ([^, ]+), (\d+)", ins)
            if m:
                dst, _aty, agg, ety, ev, idx = m.groups()
                base = val(agg)
                items = list(base[1]) if base[0] == "agg" else [None, None]
                items[int(idx)] = val(ev, ety.strip() if not ety.strip().endswith("*") else None)
                env[dst] = ("agg", items)
                continue
            m = re.match(r"br i1 ([^,]+), label %(\w+), label %(\w+)", ins)
            if m:
                c, t, f = m.groups()
                cond = val(c, "i1")
                for target, cnd in ((t, cond), (f, z3.Not(cond))):
                    cnd_s = z3.simplify(cnd)
                    if z3.is_false(cnd_s):
                        continue
                    npc = pc if z3.is_true(cnd_s) else pc + [cnd_s]
                    if z3.is_true(cnd_s) or self.feasible(npc):
                        self._step(fname, blocks, target, block, npc, dict(env), mem.copy(), results)
                return
            m = re.match(r"br label %(\w+)", ins)
            if m:
                self._step(fname, blocks, m.group(1), block, pc, env, mem, results)
                return
            m = re.match(r"switch (i\d+) ([^,]+), label %(\w+) \[", ins)
            if m:
                sty, v, default = m.groups()
                x = val(v, sty)
                idx = ins_list.index(ins)
                cases = []
                for l in ins_list[idx + 1:]:
                    cm = re.match(r"i\d+ (-?\d+), label %(\w+)", l)
                    if cm:
                        cases.append((int(cm.group(1)), cm.group(2)))
                notany = []
                for cv, tgt in cases:
                    cnd = x == cv
                    notany.append(x != cv)
                    if self.feasible(pc + [cnd]):
                        self._step(fname, blocks, tgt, block, pc + [cnd], dict(env), mem.copy(), results)
                if self.feasible(pc + notany):
                    self._step(fname, blocks, default, block, pc + notany, dict(env), mem.copy(), results)
                return
            if re.match(r"i\d+ -?\d+, label %\w+", ins) or ins == "]":
                continue
            m = re.match(r"ret void", ins)
            if m:
                self.npaths += 1
                results.append((pc, ("RET", None), mem))
                return
            m = re.match(r"ret (.+?) ([^ ]+)$", ins)
            if m:
                ty, v = m.groups()
                self.npaths += 1
                results.append((pc, ("RET", val(v, ty.strip() if ty.strip() in ("i1", "i8", "i32", "i64") else None)), mem))
                return
            raise Unsupported("instruction: " + ins)
        raise Unsupported("fell off block %s of %s" % (block, fname))

    def _argval(self, env, x):
        """one call argument: SSA value / constant, or the address of a global (a message string handed on to an error
        routine is an opaque ('global', name) value: nothing reads through it)"""
        m = re.search(r"getelementptr inbounds \(.*?\* (@[\w.$]+),", x)
        if m:
            return ("global", m.group(1))
        last = x.split(" ")[-1]
        if last.startswith("@"):
            return ("global", last)
        return self._val(env, last, self._argty(x))

    @staticmethod
    def _split_args(a):
        out, depth, cur = [], 0, ""
        for ch in a:
            if ch in "([{":
                depth += 1
            if ch in ")]}":
                depth -= 1
            if ch == "," and depth == 0:
                out.append(cur.strip())
                cur = ""
            else:
                cur += ch
        if cur.strip():
            out.append(cur.strip())
        return out

    @staticmethod
    def _argty(x):
        x = x.strip()
        t = x.split(" ")[0]
        return t if t in ("i1", "i8", "i32", "i64") else None

    # ---- MEX / stand-in stubs (the environment of the claim) ------------------------
    def stub(self, callee, v, pc, mem):
        if callee == "mxGetM":
            return v[0][1].M
        if callee == "mxGetN":
            return v[0][1].N
        if callee == "mxGetClassID":
            return v[0][1].classid
        if callee == "mxIsDouble":
            return v[0][1].classid == CLASS["DOUBLE"]
        if callee == "mxIsComplex":
            return v[0][1].is_complex
        if callee in ("mxGetData", "mxGetPr"):
            return ("ptr", v[0][1].data, bv(0, 64))
        if callee == "mxGetScalar":
            return self.mx_get_scalar(v[0][1], mem)
        if callee == "mxCreateNumericArray":
            # MEX contract: zero-filled array of the class with the first `ndim` entries of dims; a one-dimensional
            # request gives an M x 1 array (MATLAB pads the missing dimension with 1); ndim 1 or 2 only
            ndim, dims, cls = v[0], v[1], v[2]
            nd = z3.simplify(ndim)
            d0 = self.load(mem, dims, "i64")
            if z3.is_bv_value(nd) and nd.as_long() == 1:
                n_ = bv(1, 64)                                   # dims[1] is not read (and need not exist)
            else:
                d1 = self.load(mem, ("ptr", dims[1], dims[2] + 8), "i64")
                n_ = z3.If(z3.UGE(ndim, bv(2, ndim.size())), d1, bv(1, 64))
            m_ = d0
            cs = z3.simplify(cls)
            if z3.is_bv_value(cs) and cs.as_long() == CLASS["DOUBLE"]:
                data = mem.new("cells", z3.K(z3.BitVecSort(64), bv(0, 64)))
            else:
                data = mem.new("bytes", [bv(0, 8)] * 8)          # element 0 only: the scalar helpers
            return ("mx", Mx(cls, z3.simplify(m_), z3.simplify(n_), data))
        if callee == "mxCreateNumericMatrix":
            return ("mx", Mx(v[2], v[0], v[1], mem.new("bytes", [bv(0, 8)] * 8)))
        if callee == "mxCreateDoubleScalar":
            raw = v[0]
            return ("mx", Mx(bv(CLASS["DOUBLE"], 32), bv(1, 64), bv(1, 64),
                             mem.new("bytes", [z3.Extract(8 * i + 7, 8 * i, raw) for i in range(8)])))
        if callee == "mxCreateDoubleMatrix":
            return ("mx", Mx(bv(CLASS["DOUBLE"], 32), v[0], v[1], mem.new("cells", z3.K(z3.BitVecSort(64), bv(0, 64)))))
        if callee == "_ZN5gtsam6VectorC1El":
            this, n = v
            self.npaths += 0
            arr = mem.new("cells", z3.K(z3.BitVecSort(64), bv(0, 64)))
            kind, content = mem.objs[this[1]]
            content[0] = ("ptr", arr, bv(0, 64))
            content[8] = n
            return None
        if callee == "_ZN5gtsam6MatrixC1Ell":
            this, m_, n_ = v
            arr = mem.new("cells", z3.K(z3.BitVecSort(64), bv(0, 64)))
            kind, content = mem.objs[this[1]]
            content[0] = ("ptr", arr, bv(0, 64))
            content[8] = m_
            content[16] = n_
            return None
        return NotImplemented

    def mx_get_scalar(self, mx, mem):
        """MEX contract: the first element converted to double according to the array's class."""
        kind, content = mem.objs[mx.data]
        if kind == "cells":
            raw = z3.Select(content, bv(0, 64))
            by = [z3.Extract(8 * i + 7, 8 * i, raw) for i in range(8)]
        else:
            by = content
        def u(n):
            return z3.Concat(*reversed(by[:n])) if n > 1 else by[0]
        c = mx.classid
        r = None                                                    # DOUBLE (and anything else): the 8 bytes as they are
        conv = [
            (CLASS["SINGLE"], z3.fpFPToFP(z3.RNE(), z3.fpBVToFP(u(4), z3.Float32()), F64)),
            (CLASS["LOGICAL"], z3.fpUnsignedToFP(z3.RNE(), z3.ZeroExt(56, z3.If(u(1) != 0, bv(1, 8), bv(0, 8))), F64)),
            (CLASS["CHAR"], z3.fpUnsignedToFP(z3.RNE(), u(2), F64)),
            (CLASS["INT8"], z3.fpSignedToFP(z3.RNE(), u(1), F64)), (CLASS["UINT8"], z3.fpUnsignedToFP(z3.RNE(), u(1), F64)),
            (CLASS["INT16"], z3.fpSignedToFP(z3.RNE(), u(2), F64)), (CLASS["UINT16"], z3.fpUnsignedToFP(z3.RNE(), u(2), F64)),
            (CLASS["INT32"], z3.fpSignedToFP(z3.RNE(), u(4), F64)), (CLASS["UINT32"], z3.fpUnsignedToFP(z3.RNE(), u(4), F64)),
            (CLASS["INT64"], z3.fpSignedToFP(z3.RNE(), u(8), F64)), (CLASS["UINT64"], z3.fpUnsignedToFP(z3.RNE(), u(8), F64)),
        ]
        r = u(8)
        for cid, e in conv:
            r = z3.If(c == cid, z3.fpToIEEEBV(e), r)
        return r
