"""Entry point: ./vcheck <ID> [--tier quick|thorough] [--replay path]."""
import argparse
import importlib
import json
import os
import sys

from .common import tier_from_env, EXIT_HARNESS


def main():
    ap = argparse.ArgumentParser()
    ap.add_argument("pid")
    ap.add_argument("--tier", default=tier_from_env())
    ap.add_argument("--replay")
    a = ap.parse_args()
    sys.setrecursionlimit(100000)
    os.environ["VERIF_TIER"] = a.tier
    mod = importlib.import_module("checks." + a.pid.lower())
    if a.replay:
        with open(a.replay) as f:
            payload = json.load(f)
        return mod.replay(payload) if hasattr(mod, "replay") else generic_replay(payload)
    return mod.run(a.tier)


def generic_replay(payload):
    """Re-run a recorded counterexample against /repo; exit 1 if it still fails."""
    from . import xh
    if payload.get("kind") == "xh":
        r = xh.call(payload["module"], payload["func"], payload["kwargs"])
        print(json.dumps(r, indent=1)[:3000])
        if r.get("holds") is False:
            print("VIOLATION property=%s replay=%s" % (payload.get("property"), "(replayed)"))
            return 1
        return 0 if r.get("holds") else EXIT_HARNESS
    print("no generic replay for kind", payload.get("kind"))
    return EXIT_HARNESS


if __name__ == "__main__":
    try:
        rc = main()
    except SystemExit:
        raise
    except BaseException as ex:            # an unexpected failure of the machinery is never a verdict about the code
        import traceback
        traceback.print_exc()
        print("HARNESS-ERROR property=%s unexpected %s in the check itself: %s" % (sys.argv[1] if len(sys.argv) > 1 else "?", type(ex).__name__, str(ex)[:300]))
        rc = EXIT_HARNESS
    sys.exit(rc)
