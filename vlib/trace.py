"""In-process notes shared between harness functions and the CrossHair worker.

Harness functions call `reached()` right before they return their verdict; the
worker reads the counters afterwards.  Nothing here may touch symbolic values.
"""
import contextlib

try:
    from crosshair.tracers import NoTracing as _NoTracing, is_tracing as _is_tracing
except Exception:  # pragma: no cover - crosshair always present in the venv
    _NoTracing = None

    def _is_tracing():
        return False

COUNTS = {"reached": 0, "pipeline_runs": 0}
SAMPLES = []
FUNCS = set()


@contextlib.contextmanager
def concrete():
    """`with concrete():` = crosshair NoTracing when being traced, a no-op otherwise."""
    if _NoTracing is not None and _is_tracing():
        with _NoTracing():
            yield
    else:
        yield


def reached(sample=None):
    with concrete():
        COUNTS["reached"] += 1
        if sample is not None and len(SAMPLES) < 6:
            SAMPLES.append(sample)


def ran_pipeline(n=1):
    with concrete():
        COUNTS["pipeline_runs"] += n


def realize_int(x) -> int:
    """Force a symbolic int to a concrete one (forks the path per value)."""
    try:
        from crosshair import realize
        return int(realize(x))
    except Exception:
        return int(x)


def realize_bool(x) -> bool:
    try:
        from crosshair import realize
        return bool(realize(x))
    except Exception:
        return bool(x)


def pick(x, lo, hi):
    """Enumerate a symbolic int in [lo, hi) by explicit branching: exactly one path per value (CrossHair's
    `realize` re-visits values several times).  Concrete ints pass through."""
    with concrete():
        is_concrete = type(x) is int        # under tracing CrossHair makes type(symbolic int) look like int
    if is_concrete:
        return x
    for v in range(lo, hi - 1):
        if x == v:
            return v
    return hi - 1
