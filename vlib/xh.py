"""Engine X: run CrossHair conditions (one OS process each), replay counterexamples, fold into a Report."""
import concurrent.futures as cf
import json
import os
import subprocess
import time
from dataclasses import dataclass, field
from typing import List

from .common import PY, ROOT, NCPU, Report


@dataclass
class Cond:
    module: str                 # e.g. "harness.c02"
    func: str
    timeout: float = 60.0       # CrossHair per-condition CPU seconds
    path_timeout: float = 30.0
    examples: List[str] = field(default_factory=list)   # python-literal kwargs dicts, must hold
    bounds: str = ""
    kind: str = "spelling-symbolic"
    needs_confirm: bool = True  # False: bug-hunting only (documented limit), inconclusive is expected

    @property
    def name(self):
        return "%s.%s" % (self.module.split(".")[-1], self.func)


def _run_worker(args, wall):
    env = dict(os.environ)
    env["PYTHONPATH"] = ROOT + os.pathsep + env.get("PYTHONPATH", "")
    if os.environ.get("GTWRAP_REPO"):
        env["PYTHONPATH"] = os.environ["GTWRAP_REPO"] + os.pathsep + env["PYTHONPATH"]
    env.setdefault("PYTHONHASHSEED", "0")
    t0 = time.time()
    try:
        p = subprocess.run([PY, "-m", "vlib.xh_worker"] + args, cwd=ROOT, env=env, capture_output=True,
                           text=True, timeout=wall)
        out, err, rc = p.stdout, p.stderr, p.returncode
    except subprocess.TimeoutExpired as ex:
        out = (ex.stdout or b"").decode() if isinstance(ex.stdout, bytes) else (ex.stdout or "")
        err = "wall timeout after %.0fs" % wall
        rc = -9
    res = None
    for line in out.splitlines():
        if line.startswith("XHJSON "):
            try:
                res = json.loads(line[7:])
            except ValueError:
                pass
    if res is None:
        res = dict(verdict="inconclusive(timeout)" if rc == -9 else "error", error=(err or "")[-1500:], rc=rc,
                   messages=[], reached=0, pipeline_runs=0, stats={}, samples=[])
    res["elapsed"] = round(time.time() - t0, 2)
    return res


def call(module, func, kwargs_src, wall=300):
    return _run_worker(["call", module, func, kwargs_src], wall)


def check(c: Cond):
    return _run_worker(["check", c.module, c.func, str(c.timeout), str(c.path_timeout)], c.timeout * 1.5 + 90)


def _kf_match(entry, cond: Cond, kwargs_src):
    if entry.get("condition") not in (cond.func, cond.name, cond.module + ":" + cond.func):
        return False
    expr = entry.get("match")
    if not expr:
        return entry.get("witness") == kwargs_src
    try:
        import importlib, inspect
        a, kwargs = eval("_cap(%s)" % kwargs_src, {"__builtins__": {}}, {"_cap": lambda *a, **k: (a, k), "dict": dict})
        fn = getattr(importlib.import_module(cond.module), cond.func)
        bound = inspect.signature(fn).bind(*a, **kwargs)
        return bool(eval(expr, {"__builtins__": {"len": len, "any": any, "all": all}}, dict(bound.arguments)))
    except Exception:
        return False


def run(rep: Report, conds: List[Cond], open_findings=(), jobs=NCPU):
    """Run examples + symbolic conditions; record everything in `rep`."""
    jobs = max(1, jobs)
    # ---- 0. known findings: replay witnesses ---------------------------------
    by_name = {c.func: c for c in conds}
    for e in open_findings:
        c = by_name.get(e.get("condition"))
        if c is None or not e.get("witness"):
            continue
        r = call(c.module, c.func, e["witness"])
        rep.extra["replayed"] = rep.extra.get("replayed", 0) + 1
        if r.get("holds") is False:
            rep.known(e)
        else:
            rep.cond("known-finding:" + e["id"], "concrete replay", "confirmed", r.get("elapsed", 0),
                     "listed finding no longer reproduces on this tree")

    # ---- 1. concrete exemplars (harness validation + cheap real counterexamples) -
    ex_jobs = [(c, ex) for c in conds for ex in c.examples]
    with cf.ThreadPoolExecutor(jobs) as pool:
        ex_res = list(pool.map(lambda ce: call(ce[0].module, ce[0].func, ce[1]), ex_jobs))
    for (c, ex), r in zip(ex_jobs, ex_res):
        rep.extra["model_validation_cases"] = rep.extra.get("model_validation_cases", 0) + 1
        if r.get("holds") is True:
            rep.sample({"condition": c.name, "concrete_example": ex, "holds": True})
            continue
        if r.get("holds") is None:
            rep.harness_error("%s example %s: %s" % (c.name, ex, r.get("error", "")[-300:]))
            continue
        if any(_kf_match(e, c, ex) for e in open_findings):
            continue
        rep.cond(c.name + "[example]", "concrete call of the harness oracle", "counterexample", r.get("elapsed", 0), ex)
        rep.violation("%s fails on concrete input %s %s" % (c.name, ex, r.get("exception") or r.get("failure") or ""),
                      dict(kind="xh", module=c.module, func=c.func, kwargs=ex, result=r))

    # ---- 2. symbolic runs -------------------------------------------------------
    order = sorted(conds, key=lambda c: -c.timeout)
    with cf.ThreadPoolExecutor(jobs) as pool:
        results = list(pool.map(check, order))
    for c, r in zip(order, results):
        verdict = r.get("verdict", "error")
        npaths = int(r.get("stats", {}).get("num_paths", 0) or r.get("reached", 0))
        rep.paths += max(npaths, int(r.get("reached", 0)))
        rep.extra["distinct"] = rep.extra.get("distinct", 0) + int(r.get("reached", 0))
        rep.queries += 1
        detail = ""
        if verdict == "confirmed" and int(r.get("reached", 0)) < 1:
            rep.harness_error("%s confirmed but no path reached the post-condition (vacuous)" % c.name)
            verdict = "error"
        if verdict == "error":
            rep.harness_error("%s: %s %s" % (c.name, r.get("error", ""), [m.get("message", "")[-300:] for m in r.get("messages", [])]))
        if verdict == "counterexample":
            msg = next((m for m in r["messages"] if m["state"] in ("POST_FAIL", "EXEC_ERR", "POST_ERR")), None)
            args = (msg or {}).get("call_args")
            detail = (msg or {}).get("message", "")[-400:]
            if args is None:
                rep.harness_error("%s: counterexample without replayable arguments: %s" % (c.name, detail))
                verdict = "error"
            else:
                kw = args
                rr = call(c.module, c.func, kw)
                rep.extra["replayed"] = rep.extra.get("replayed", 0) + 1
                if rr.get("holds") is False:
                    if any(_kf_match(e, c, kw) for e in open_findings):
                        verdict = "known-finding"
                    else:
                        rep.violation("%s violated for %s %s" % (c.name, args, rr.get("exception") or rr.get("failure") or ""),
                                      dict(kind="xh", module=c.module, func=c.func, kwargs=kw, result=rr, crosshair=detail))
                else:
                    rep.harness_error("%s: CrossHair counterexample %s did not reproduce concretely (%s)" % (c.name, args, rr.get("error", "")))
                    verdict = "error"
        if verdict.startswith("inconclusive") and not c.needs_confirm:
            detail = "bug-hunting only for this condition (documented limit): " + detail
        rep.cond(c.name, "crosshair/z3 " + c.kind, verdict, r.get("cpu", r.get("elapsed", 0)), detail,
                 bounds=c.bounds, paths=npaths, reached_post=r.get("reached", 0), pipeline_runs=r.get("pipeline_runs", 0),
                 wall=r.get("wall"))
        for s in r.get("samples", [])[:2]:
            rep.sample({"condition": c.name, "path_sample": s})
    return rep
