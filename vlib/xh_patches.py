"""Work-arounds for defects of crosshair-tool 0.0.110 that our harnesses trip over.  Each patch is
semantics-preserving (explained inline) and is applied inside the worker process only."""


def apply():
    from crosshair.libimpl import builtinslib as B
    from crosshair.util import CrossHairInternal
    from crosshair.tracers import NoTracing
    from crosshair.core import realize

    if getattr(B.SymbolicBoundedIntTuple, "_verif_patched", False):
        return
    orig = B.SymbolicBoundedIntTuple.__getitem__

    def getitem(self, argument):
        # SymbolicBoundedIntTuple.__eq__(other) creates element variables up to len(other) even when the
        # tuple itself is shorter (the length mismatch only makes the resulting formula false).  A later
        # slice then dies with "_created_vars exceeded actual length".  Variables beyond the realised
        # length are simply unused, so slicing the first `actual_len` of them is exactly the tuple.
        try:
            return orig(self, argument)
        except CrossHairInternal as ex:
            if "_created_vars exceeded actual length" not in str(ex) or not isinstance(argument, slice):
                raise
            with NoTracing():
                actual = realize(self._len)
                start, stop, step = realize(argument.start), realize(argument.stop), realize(argument.step)
                return self._created_vars[:actual][start:stop:step]

    B.SymbolicBoundedIntTuple.__getitem__ = getitem
    B.SymbolicBoundedIntTuple._verif_patched = True
