"""One CrossHair condition (or one concrete call) per process.

  python -m vlib.xh_worker check  <module> <func> <cond_timeout> <path_timeout>
  python -m vlib.xh_worker call   <module> <func> <kwargs-as-python-dict-literal>

Prints exactly one line starting with "XHJSON " followed by a JSON object.
"""
import collections
import importlib
import json
import os
import re
import sys
import time
import traceback

sys.setrecursionlimit(20000)
ROOT = os.path.dirname(os.path.dirname(os.path.abspath(__file__)))
if ROOT not in sys.path:
    sys.path.insert(0, ROOT)


def _emit(obj):
    sys.stdout.write("XHJSON " + json.dumps(obj, default=str) + "\n")
    sys.stdout.flush()


def _gtwrap_functions_covered():
    from vlib import trace
    return sorted(trace.FUNCS)


def do_call(modname, fname, kwargs_src):
    """Concrete (untraced) call of a harness function: the replay oracle."""
    from vlib import trace
    mod = importlib.import_module(modname)
    fn = getattr(mod, fname)
    # argument source text comes from our own runner (examples) or from CrossHair's message
    a, kwargs = eval("_cap(%s)" % kwargs_src, {"__builtins__": {}}, {"float": float, "_cap": lambda *a, **k: (a, k), "dict": dict})
    out = dict(mode="call", module=modname, func=fname, kwargs=kwargs_src)
    t0 = time.time()
    try:
        r = fn(*a, **kwargs)
        out["returned"] = bool(r)
        out["holds"] = bool(r)
        info = getattr(mod, "LAST_FAILURE", None)
        if not r and info is not None:
            out["failure"] = info
    except Exception as ex:  # a harness raising on a concrete input = property does not hold there
        out["returned"] = None
        out["holds"] = False
        out["exception"] = "%s: %s" % (type(ex).__name__, ex)
        out["traceback"] = traceback.format_exc()[-1500:]
    out["seconds"] = round(time.time() - t0, 3)
    out["samples"] = trace.SAMPLES[:3]
    _emit(out)


def extract_call_args(message, fname):
    """Argument source text of CrossHair's `... when calling f(<args>) (which returns ...)` message."""
    import ast
    key = "when calling %s(" % fname
    i = message.find(key)
    if i < 0:
        return None
    rest = message[i + len(key):]
    ends = [j for j, ch in enumerate(rest) if ch == ")"]
    for j in ends:
        cand = rest[:j]
        try:
            ast.parse("f(%s)" % cand, mode="eval")
        except SyntaxError:
            continue
        return cand
    return None


def do_check(modname, fname, cond_timeout, path_timeout):
    from crosshair.core_and_libs import analyze_function, run_checkables, MessageType
    from crosshair.options import AnalysisOptionSet, AnalysisKind
    from vlib import trace, xh_patches
    xh_patches.apply()
    mod = importlib.import_module(modname)
    fn = getattr(mod, fname)
    stats = collections.Counter()
    opts = AnalysisOptionSet(
        analysis_kind=[AnalysisKind.PEP316],
        per_condition_timeout=float(cond_timeout),
        per_path_timeout=float(path_timeout),
        report_all=True,
        max_uninteresting_iterations=sys.maxsize,
        stats=stats,
    )
    t0 = time.time()
    c0 = time.process_time()
    msgs = []
    err = None
    try:
        checkables = analyze_function(fn, opts)
        msgs = list(run_checkables(checkables))
    except Exception as ex:
        err = "%s: %s" % (type(ex).__name__, ex)
    out = dict(mode="check", module=modname, func=fname,
               wall=round(time.time() - t0, 2), cpu=round(time.process_time() - c0, 2),
               reached=trace.COUNTS["reached"], pipeline_runs=trace.COUNTS["pipeline_runs"],
               samples=trace.SAMPLES[:4], stats={k: v for k, v in stats.items()},
               messages=[])
    if err:
        out["error"] = err
    verdict = None
    for m in msgs:
        st = m.state.name
        d = dict(state=st, message=m.message[-2000:], line=m.line)
        ca = extract_call_args(m.message, fname)
        if ca is not None:
            d["call_args"] = ca
        out["messages"].append(d)
    states = [m["state"] for m in out["messages"]]
    if not states:
        verdict = "inconclusive(no-conditions)" if not err else "error"
    elif any(s in ("POST_FAIL", "EXEC_ERR", "POST_ERR") for s in states):
        verdict = "counterexample"
    elif any(s in ("SYNTAX_ERR", "IMPORT_ERR") for s in states):
        verdict = "error"
    elif all(s == "CONFIRMED" for s in states):
        verdict = "confirmed"
    elif any(s == "PRE_UNSAT" for s in states):
        verdict = "inconclusive(precondition)"
    else:
        verdict = "inconclusive(timeout)"
    out["verdict"] = verdict
    _emit(out)


if __name__ == "__main__":
    mode = sys.argv[1]
    if mode == "call":
        do_call(sys.argv[2], sys.argv[3], sys.argv[4])
    else:
        do_check(sys.argv[2], sys.argv[3], sys.argv[4], sys.argv[5])
